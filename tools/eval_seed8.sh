#!/bin/bash
# round 8: usage eval_seed8.sh verify <Cxx> | check <Cxx> [extra ids]
MODE=$1; P=$2; shift 2
WT=/tmp/w8-$P
mkdir -p /tmp/seed-results
for X in A B; do
  [ -f $WT/_seed/$X/patch.diff ] || continue
  if [ $MODE = verify ]; then
    R=/tmp/seed-results/R8-$P-$X.verify.txt
    /verif/tools/verify_seed.sh $WT $X > $R 2>&1
    echo "== R8-$P-$X"; grep -E "^test result|exit=|^---" $R | cut -c1-260
  else
    R=/tmp/seed-results/R8-$P-$X.check.txt
    cp $WT/_seed/$X/patch.diff /tmp/seed-results/R8-$P-$X.diff
    /verif/tools/run_mutant_iso.sh /tmp/seed-results/R8-$P-$X.diff $P "$@" > $R 2>&1
    cat $R
  fi
done

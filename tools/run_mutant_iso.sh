#!/bin/bash
# usage: tools/run_mutant_iso.sh <patch.diff> <Cxx> [...]      (env TIER=quick|thorough, BASELINE=1)
# Runs checks against a patched COPY of /repo with a COPY of the harness (so /repo and /verif are
# untouched and several runs do not disturb ongoing work). Copies live under /tmp/mut-iso and are
# removed afterwards; the shared cargo target dirs /tmp/mut-target* are kept between runs for speed.
set -u
PATCH=$(realpath "$1"); shift
NAME=$(basename "$PATCH" .diff)
# a fixed work dir per worker keeps the crate identity (path) stable, so cargo overwrites its artifacts instead of
# piling up a new set per patch (that filled the disk once: 95 GB)
W=${MUT_WORK:-/tmp/mut-iso/work}
MT=${MUT_TARGET:-/tmp/mut-target}
LOCK=$MT.lock
exec 9>$LOCK; flock 9     # held to the end: work dir and target dir belong to one run at a time
rm -rf "$W"; mkdir -p "$W"
# the committed state of /repo (not its working tree, which another run may have patched at this moment)
mkdir -p "$W/repo" && git -C /repo archive HEAD | tar -x -C "$W/repo"
rsync -a --exclude target ${HARNESS_SRC:-/verif/harness}/ "$W/harness/"
sed -i "s#path = \"[^\"]*repo\"#path = \"$W/repo\"#" "$W/harness/Cargo.toml"
rm -f "$W/harness/.cargo/config.toml"
if (cd "$W/repo" && patch -p1 -s --dry-run < "$PATCH" >/dev/null 2>&1); then
  (cd "$W/repo" && patch -p1 -s < "$PATCH")
elif (cd "$W/repo" && patch -p1 -s --fuzz=3 --dry-run < "$PATCH" >/dev/null 2>&1); then
  # written against an earlier commit of /repo: apply with context fuzz (as tools/run_mutant.sh does)
  (cd "$W/repo" && patch -p1 -s --fuzz=3 --no-backup-if-mismatch < "$PATCH")
else
  echo "$NAME PATCH-DOES-NOT-APPLY"; rm -rf "$W"; exit 2
fi
export CARGO_NET_OFFLINE=true
if [ "${BASELINE:-0}" = 1 ]; then
  res=$(cd "$W/repo" && CARGO_TARGET_DIR=/tmp/mut-target-repo cargo test --workspace --no-fail-fast --offline 2>&1 | grep -E "^test result|error(\[|:)" | head -4 | tr '\n' ' ')
  echo "$NAME baseline: $res"
fi
if ! (cd "$W/harness" && CARGO_TARGET_DIR=$MT cargo build --release --offline > "$W/build.log" 2>&1); then
  echo "$NAME HARNESS-BUILD-FAILED: $(grep -m1 -E '^error' "$W/build.log")"; rm -rf "$W"; exit 2
fi
cp $MT/release/pmv "$W/pmv"
# second binary (library without debug assertions / overflow checks), as ./check builds it
if (cd "$W/harness" && CARGO_TARGET_DIR=$MT cargo build --profile plain --offline >> "$W/build.log" 2>&1); then
  cp $MT/plain/pmv "$W/pmv-plain"
fi
export VERIF_EVIDENCE_DIR=$W/evidence VERIF_REPLAY_DIR=$W/replays
mkdir -p $VERIF_EVIDENCE_DIR
for id in "$@"; do
  out=""; pcode=0
  if [ -x "$W/pmv-plain" ] && { [ "${TIER:-quick}" = thorough ] || { [ $id != C13 ] && [ $id != C14 ]; }; }; then
    out=$(VERIF_BUILD=plain VERIF_EVIDENCE_DIR=$W/evidence-plain "$W/pmv-plain" $id ${TIER:-quick} 2>&1); pcode=$?
  fi
  out2=$("$W/pmv" $id ${TIER:-quick} 2>&1); code=$?
  if [ $code -eq 0 ] && [ $pcode -ne 0 ]; then code=$pcode; out="[second build] $out"; else out="$out2"; fi
  key=$(echo "$out" | grep -m1 "violation key=" | cut -c1-200)
  echo "$NAME $id exit=$code $key"
done
rm -rf "$W"

#!/bin/bash
# round 2: usage eval_seed2.sh <Cxx> [extra ids]
P=$1; shift
WT=/tmp/w3-$P
for X in A B; do
  [ -f $WT/_seed/$X/patch.diff ] || continue
  R=/tmp/seed-results/R3-$P-$X.txt
  /verif/tools/verify_seed.sh $WT $X > $R 2>&1
  cp $WT/_seed/$X/patch.diff /tmp/seed-results/R3-$P-$X.diff
  /verif/tools/run_mutant_iso.sh /tmp/seed-results/R3-$P-$X.diff $P "$@" >> $R 2>&1
  echo "== R3-$P-$X"; grep -E "^test result|exit=|^---" $R | cut -c1-260
done

#!/bin/bash
# usage: tools/eval_seed.sh <Cxx> [extra check ids...]   - verify both seeds of a property and run the checks against them
P=$1; shift
WT=/tmp/wt-$P
mkdir -p /tmp/seed-results
for X in A B; do
  [ -f $WT/_seed/$X/patch.diff ] || continue
  R=/tmp/seed-results/$P-$X.txt
  /verif/tools/verify_seed.sh $WT $X > $R 2>&1
  cp $WT/_seed/$X/patch.diff /tmp/seed-results/$P-$X.diff
  /verif/tools/run_mutant_iso.sh /tmp/seed-results/$P-$X.diff $P "$@" >> $R 2>&1
  echo "== $P-$X"; grep -E "^test result|exit=|^---" $R | cut -c1-260
done

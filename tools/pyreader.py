#!/usr/bin/env python3
"""Second independent PMTiles v3 reader (Python standard library only; internal compression none/gzip).

usage: pyreader.py <archive> [<archive> ...]
For every archive prints one JSON line:
  {"file":..., "ok":true, "tiles":{"<id>":"<hex of content>"...}, "meta":<json>, "header":{...}, "complaints":[...]}
or {"file":..., "ok":false, "error":"..."}.
Written from the specification text only; shares nothing with the Rust harness. Used by `./check C02 thorough`
as a cross-check of the harness's own spec reader."""
import json
import struct
import sys
import zlib


def varint(b, pos):
    v = 0
    shift = 0
    while True:
        if pos >= len(b):
            raise ValueError("varint runs past the end")
        x = b[pos]
        pos += 1
        v |= (x & 0x7F) << shift
        if not x & 0x80:
            return v, pos
        shift += 7
        if shift > 63:
            raise ValueError("varint too long")


def decompress(code, data):
    if code == 1:
        return data
    if code == 2:
        d = zlib.decompressobj(16 + zlib.MAX_WBITS)
        out = d.decompress(data)
        if not d.eof:
            raise ValueError("gzip stream not terminated")
        if d.unused_data:
            raise ValueError("bytes after the gzip member")
        return out
    raise ValueError("compression code %d not supported by this reader" % code)


def directory(plain):
    n, pos = varint(plain, 0)
    if n > len(plain):
        raise ValueError("entry count larger than directory")
    ids, runs, lens, offs = [], [], [], []
    last = 0
    for _ in range(n):
        d, pos = varint(plain, pos)
        last += d
        ids.append(last)
    for _ in range(n):
        v, pos = varint(plain, pos)
        runs.append(v)
    for _ in range(n):
        v, pos = varint(plain, pos)
        if v == 0:
            raise ValueError("entry length 0")
        lens.append(v)
    for i in range(n):
        v, pos = varint(plain, pos)
        if v == 0:
            if i == 0:
                raise ValueError("first offset 0")
            offs.append(offs[i - 1] + lens[i - 1])
        else:
            offs.append(v - 1)
    if pos != len(plain):
        raise ValueError("trailing bytes in directory")
    return list(zip(ids, offs, lens, runs))


def read(path):
    b = open(path, "rb").read()
    if len(b) < 127 or b[:7] != b"PMTiles" or b[7] != 3:
        raise ValueError("bad magic/version")
    u = struct.unpack_from("<11Q", b, 8)
    root_o, root_l, meta_o, meta_l, leaf_o, leaf_l, data_o, data_l, n_addr, n_ent, n_cont = u
    clustered, icomp, tcomp, ttype, minz, maxz = b[96], b[97], b[98], b[99], b[100], b[101]
    coords = struct.unpack_from("<4i", b, 102) + struct.unpack_from("<2i", b, 119)
    complaints = []
    for name, o, l in (("root", root_o, root_l), ("metadata", meta_o, meta_l), ("leaves", leaf_o, leaf_l), ("data", data_o, data_l)):
        if o + l > len(b):
            complaints.append("%s section outside file" % name)
    if root_o + root_l > 16384:
        complaints.append("header+root beyond 16 KiB")
    meta = json.loads(decompress(icomp, b[meta_o:meta_o + meta_l])) if meta_l else {}
    if not isinstance(meta, dict):
        complaints.append("metadata is not an object")
    tiles = {}
    entries = []

    def walk(o, l, depth):
        if depth > 4:
            raise ValueError("too deep")
        es = directory(decompress(icomp, b[o:o + l]))
        prev_end = -1
        for (tid, off, ln, run) in es:
            if tid < prev_end:
                complaints.append("entries overlap at id %d" % tid)
            prev_end = tid + max(run, 1)
            if run == 0:
                walk(leaf_o + off, ln, depth + 1)
            else:
                entries.append((tid, off, ln, run))
                if off + ln > data_l:
                    complaints.append("tile %d outside tile data" % tid)
                for k in range(run):
                    tiles[tid + k] = b[data_o + off:data_o + off + ln]

    walk(root_o, root_l, 0)
    if sum(e[3] for e in entries) != n_addr:
        complaints.append("num_addressed_tiles mismatch")
    if len(entries) != n_ent:
        complaints.append("num_tile_entries mismatch")
    if len(set(e[1] for e in entries)) != n_cont:
        complaints.append("num_tile_content mismatch")
    return {
        "file": path, "ok": True, "complaints": complaints, "meta": meta,
        "tiles": {str(k): v.hex() for k, v in sorted(tiles.items())},
        "header": {"clustered": clustered, "internal": icomp, "tile_compression": tcomp, "tile_type": ttype,
                   "zooms": [minz, maxz, b[118]], "coords": list(coords)},
    }


if __name__ == "__main__":
    for p in sys.argv[1:]:
        try:
            print(json.dumps(read(p)))
        except Exception as e:  # noqa: BLE001
            print(json.dumps({"file": p, "ok": False, "error": "%s: %s" % (type(e).__name__, e)}))

#!/usr/bin/env python3
"""Creates /verif/mutants/<name>.diff: realistic property-breaking edits of /repo (never committed there)."""
import subprocess, sys, os
R='/repo'
M=[
# name, expected catchers, [(file, old, new)]
("c01-drop-tile-data-offset", "C01 C03", [("src/pmtiles.rs", ".checked_add(info.offset)", ".checked_add(info.offset.min(0))")]),
("c02-root-budget-16384", "C02 C06", [("src/util/write_directories.rs", "const MAX_ROOT_DIR_LENGTH: u16 = 16384 - HEADER_BYTES as u16;", "const MAX_ROOT_DIR_LENGTH: u16 = 16384;")]),
("c02-swap-counters", "C02", [("src/pmtiles.rs", "num_tile_entries: result.num_tile_entries,\n            num_tile_content: result.num_tile_content,", "num_tile_entries: result.num_tile_content,\n            num_tile_content: result.num_tile_entries,")]),
("c04-remove-always-drops-data", "C04 C10", [("src/tile_manager.rs", "                if ids_with_hash.is_empty() {\n                    self.data_by_hash.remove(&hash);", "                {\n                    self.data_by_hash.remove(&hash);")]),
("c04-add-skips-remove", "C10 C04", [("src/tile_manager.rs", "        self.remove_tile(tile_id);\n\n        let hash", "        let hash")]),
("c05-contiguous-at-index0", "C05", [("src/directory.rs", "let val = if index > 0 && entry.offset == next_byte {", "let val = if entry.offset == next_byte {")]),
("c05-never-contiguous", "C05", [("src/directory.rs", "let val = if index > 0 && entry.offset == next_byte {", "let val = if index > 0 && entry.offset == next_byte && false {")]),
("c06-pointer-last-id", "C06", [("src/util/write_directories.rs", "tile_id: entries[0].tile_id,", "tile_id: entries[entries.len() - 1].tile_id,")]),
("c06-leaf-length-off-by-one", "C06", [("src/util/write_directories.rs", "let length = (leaf_dir_writer.stream_position()? - offset) as u32;", "let length = (leaf_dir_writer.stream_position()? - offset) as u32 + 1;")]),
("c07-max-z-31", "C07", [("src/util/tile_id.rs", "const MAX_Z: u8 = 32;", "const MAX_Z: u8 = 31;")]),
("c07-remove-grid-guard", "C07", [("src/pmtiles.rs", "z < 32 && x < (1u64 << z) && y < (1u64 << z)", "z < 32 && (x < (1u64 << z) || y < (1u64 << z))")]),
("c08-unchecked-leaf-offset", "C08", [("src/util/read_directories.rs", "let leaf_offset = leaf_dir_offset.checked_add(entry.offset).ok_or_else(|| {", "let leaf_offset = Some(leaf_dir_offset + entry.offset).ok_or_else(|| {")]),
("c08-depth-unbounded", "C08", [("src/util/read_directories.rs", "if depth > MAX_DIRECTORY_DEPTH {", "if depth > MAX_DIRECTORY_DEPTH && depth == 0 {")]),
("c09-round-to-trunc", "C09 C01 C16", [("src/header/lat_lng.rs", "let mut rounded = scaled.round();", "let mut rounded = scaled.trunc();")]),
("c09-plain-round", "C09", [("src/header/lat_lng.rs", "if (scaled - scaled.trunc()).abs() == 0.5 {", "if (scaled - scaled.trunc()).abs() == 0.5 && false {")]),
("c10-push-entry-ignores-offset", "C10 C01", [("src/tile_manager.rs", "                && last.offset == offset\n", "")]),
("c10-offset-map-by-id", "C10", [("src/tile_manager.rs", "offset_length_map.insert(hash, (offset, length));", "offset_length_map.insert(hash ^ tile_id, (offset, length));")]),
("c11-skip-ge-range-end", "C11", [("src/util/read_directories.rs", "if entry.tile_id > range_end {", "if entry.tile_id >= range_end {")]),
("c12-async-meta-single-read", "C12 C13 C01", [("src/pmtiles.rs", "reader.read_to_end(&mut output).await?;", "output.resize(2048, 0);\n        let n = reader.read(&mut output).await?;\n        output.truncate(n);")]),
("c13-tile-read-not-exact", "C13", [("src/tile_manager.rs", "add_await([r.read_exact(&mut buf)])?;", "let _n = add_await([r.read(&mut buf)])?;")]),
("c13-data-write-not-all", "C13", [("src/pmtiles.rs", "add_await([output.write_all(&result.data[0..])])?;", "let _n = add_await([output.write(&result.data[0..])])?;")]),
("c14-compress-all-no-flush", "C14", [("src/util/compress.rs", "        writer.write_all(data)?;\n\n        writer.flush()?;\n    }\n\n    Ok(destination)", "        writer.write_all(data)?;\n        std::mem::forget(writer);\n    }\n\n    Ok(destination)")]),
("c15-final-seek-ignored", "C15", [("src/pmtiles.rs", "        add_await([output.seek(SeekFrom::Start(\n            start_pos + tile_data_offset + tile_data_length,\n        ))])?; // jump to end of archive", "        let _ = add_await([output.seek(SeekFrom::Start(\n            start_pos + tile_data_offset + tile_data_length,\n        ))]); // jump to end of archive")]),
("c15-header-write-error-swallowed", "C15 C17", [("src/pmtiles.rs", "add_await([header.to_writer(output)])?;", "let _ = add_await([header.to_writer(output)]);")]),
("c16-no-sort-before-layout", "C16 C02", [("src/tile_manager.rs", "id_tile.sort_by(|a, b| a.0.cmp(&b.0));", "id_tile.sort_by(|a, b| (a.0 / 4).cmp(&(b.0 / 4)));")]),
("c17-header-before-data", "C17", [("src/pmtiles.rs", "        // DATA\n        let tile_data_offset = leaf_directories_offset + leaf_directories_length;\n        add_await([output.write_all(&result.data[0..])])?;\n        let tile_data_length = result.data.len() as u64;", "        // DATA\n        let tile_data_offset = leaf_directories_offset + leaf_directories_length;\n        let tile_data_length = result.data.len() as u64;"),
                                     ("src/pmtiles.rs", "        add_await([header.to_writer(output)])?;\n", "        add_await([header.to_writer(output)])?;\n        add_await([output.seek(SeekFrom::Start(start_pos + tile_data_offset))])?;\n        add_await([output.write_all(&result.data[0..])])?;\n")]),
("c18-header-at-absolute-zero", "C18", [("src/pmtiles.rs", "add_await([output.seek(SeekFrom::Start(start_pos))])?; // jump to start of archive", "add_await([output.seek(SeekFrom::Start(0))])?; // jump to start of archive")]),
("c19-empty-tile-accepted", "C19", [("src/tile_manager.rs", "        if vec.is_empty() {\n            return Err(", "        if vec.is_empty() && tile_id == u64::MAX {\n            return Err(")]),
("c19-zero-length-parser", "C19", [("src/directory.rs", "            if len == 0 {\n                return Err(", "            if len == 0 && i == 0 {\n                return Err(")]),
("c19-meta-non-object-ok", "C19", [("src/pmtiles.rs", "        let JSONValue::Object(map) = val else {\n            return Err(std::io::Error::new(\n                std::io::ErrorKind::InvalidData,\n                \"PMTiles' metadata must be JSON Object\",\n            ));\n        };", "        let JSONValue::Object(map) = val else {\n            if val.is_null() { return Ok(JSONMap::new()); }\n            return Err(std::io::Error::new(\n                std::io::ErrorKind::InvalidData,\n                \"PMTiles' metadata must be JSON Object\",\n            ));\n        };")]),
("c19-empty-add-removes-old", "C19 C04", [("src/tile_manager.rs", "        let vec: Vec<u8> = data.into();\n\n        if vec.is_empty() {", "        let vec: Vec<u8> = data.into();\n        self.remove_tile(tile_id);\n\n        if vec.is_empty() {")]),
("c20-eager-metadata-overread", "C20", [("src/pmtiles.rs", "let mut meta_data_reader = (&mut input).take(header.json_metadata_length);", "let mut meta_data_reader = (&mut input).take(header.json_metadata_length + 1);")]),
("c20-lookup-reads-one-more", "C20 C13", [("src/tile_manager.rs", "                    let mut buf = vec![0; *length as usize];\n                    add_await([r.read_exact(&mut buf)])?;", "                    let mut buf = vec![0; *length as usize + 1];\n                    let n = add_await([r.read(&mut buf)])?;\n                    if n < *length as usize { add_await([r.read_exact(&mut buf[n..*length as usize])])?; }\n                    buf.truncate(*length as usize);")]),
("c03-find-entry-includes-leaf", "C03", [("src/directory.rs", ".find(|e| !e.is_leaf_dir_entry() && e.tile_id_range().contains(&tile_id))", ".find(|e| e.tile_id_range().contains(&tile_id) || (e.is_leaf_dir_entry() && e.tile_id == tile_id))")]),
("c03-run-expansion-off-by-one", "C03 C01", [("src/util/read_directories.rs", "        for tile_id in entry.tile_id_range() {", "        for tile_id in entry.tile_id..entry.tile_id + u64::from(entry.run_length.max(2)) - 1 + u64::from(entry.run_length == 1) {")]),
]
os.makedirs('/verif/mutants', exist_ok=True)
assert subprocess.run(['git','-C',R,'diff','--quiet']).returncode==0, "/repo dirty"
index=[]
for name, expect, edits in M:
    try:
        for f,old,new in edits:
            p=f"{R}/{f}"; s=open(p).read()
            assert s.count(old)>=1, f"{name}: pattern not found in {f}: {old[:60]!r}"
            s=s.replace(old,new,1); open(p,'w').write(s)
        d=subprocess.run(['git','-C',R,'diff'],capture_output=True,text=True).stdout
        open(f'/verif/mutants/{name}.diff','w').write(d)
        index.append(f"{name}\t{expect}")
    finally:
        subprocess.run(['git','-C',R,'checkout','--','.'])
open('/verif/mutants/INDEX.tsv','w').write("\n".join(index)+"\n")
print(len(index),"mutants written")

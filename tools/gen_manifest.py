#!/usr/bin/env python3
"""Regenerates /verif/MANIFEST.json from the table below (single source of truth)."""
import json, subprocess, sys

# id -> (category, technique, level text, level note, design ref)
CHECKS = {
 "C05": ("exploration", "bounded-exhaustive enumeration of entry lists (all valid lists <=2 entries over boundary alphabets, <=3 reduced) on the real codec vs an independent spec codec",
         "Every valid directory of <=2 entries over boundary value sets (every case of the offset rule at index 0 and >0), every 3-entry list over a reduced set and three parametric families up to 10^5 entries, x4 compressions x sync/async: parse(serialise(d))==d, serialised bytes == independent spec encoder, parser decodes the spec encoder's output. Exhaustive within those alphabets; no sampling.",
         "trusts harness/src/spec/{varint,dir,codec}.rs (written from the v3 spec) and the upstream codec crates as independent decoders", "4/C05"),
 "C07": ("exploration", "exhaustive enumeration of all (z,x,y) and all ids up to a zoom bound plus boundary products, against the spec's rotate/flip algorithm; lookup clause by exhaustive probe product",
         "All points and all ids of zooms 0..11 (quick) / 0..15 (thorough) forward, inverse, adjacency and children clauses; boundary products for zooms up to 31; ids around every zoom-block edge; 9k out-of-grid / z>=32 lookups against an archive holding every id those probes are mapped to.",
         "trusts harness/src/spec/hilbert.rs (the specification's reference loop, checked against its published vectors)", "4/C07"),
 "C09": ("exploration", "exhaustive sweep of stored coordinate values (all 2^32 in thorough) and boundary enumeration of every header field, against a hand-written LE codec and an exact-rational rounding oracle",
         "decode->encode byte identity for every stored coordinate value (quick: 1.3M incl. all |v|<=2^17; thorough: all 2^32 per field), degrees->stored against the exact nearest multiple of 1e-7 (integer arithmetic on mantissa/exponent), every u64 field one-hot+boundaries, every code 0..255 of each enum/version/clustered byte, every truncation 0..126, trailing bytes; sync and async paths.",
         "trusts harness/src/spec/{header,latlng}.rs", "4/C09"),
}
PENDING = {}
ALL = ["C%02d" % i for i in range(1, 21)]

def main():
    checks = []
    for pid in ALL:
        if pid not in CHECKS:
            continue
        cat, tech, text, note, ref = CHECKS[pid]
        checks.append({
            "property_id": pid,
            "quick_cmd": f"./check {pid} quick",
            "thorough_cmd": f"./check {pid} thorough",
            "evidence_file": f"/verif/evidence/{pid}.json",
            "replay_cmd_template": f"./check {pid} --replay {{path}}",
            "engine": "pmv",
            "level_claimed": {"category": cat, "text": text, "design_ref": f"DESIGN.md section {ref}"},
            "level_note": note,
            "technique": tech,
        })
    na = [{"property_id": p, "reason": PENDING.get(p, "check under construction in this session (see DESIGN.md section 4); not claimed until it runs green on the unchanged tree")}
          for p in ALL if p not in CHECKS]
    hooks_commits = subprocess.run(["git", "-C", "/repo", "log", "--format=%H %s"], capture_output=True, text=True).stdout.splitlines()
    hook_shas = [l.split()[0] for l in hooks_commits if "verif hook" in l]
    m = {
        "version": 1,
        "setup_cmd": "./check --build",
        "hooks": {
            "guard": "cargo feature `verif` of pmtiles2 (off by default)",
            "enable": "harness/Cargo.toml depends on pmtiles2 = { path = \"/repo\", features = [\"async\", \"verif\"] }",
            "baseline_off_cmd": "cd /repo && cargo test --workspace --no-fail-fast --offline",
            "source_commits": hook_shas,
            "add_only": True,
        },
        "engines": [
            {"name": "pmv", "path": "/verif/harness", "serves_properties": [c["property_id"] for c in checks],
             "kind_free_text": "Rust harness linking the real pmtiles2 crate from /repo (features async+verif, overflow-checks on): E1 bounded-exhaustive input enumerator, E2 explicit-state BFS over edit histories, E3 deviation-bounded I/O schedule explorer, E4 fault/crash-point enumerator, isolation runner (worker sub-processes)"},
        ],
        "checks": checks,
        "not_applicable": na,
        "notes": "All checks rebuild the harness against /repo's working tree first (./check). exit 2 = machinery failure, never a verdict. Known findings: /verif/known_findings.json.",
    }
    json.dump(m, open("/verif/MANIFEST.json", "w"), indent=1)
    print("MANIFEST.json:", len(checks), "checks,", len(na), "not_applicable")

if __name__ == "__main__":
    main()

#!/usr/bin/env python3
"""Regenerates /verif/MANIFEST.json from the table below (single source of truth)."""
import json, subprocess, sys

# id -> (category, technique, level text, level note, design ref)
CHECKS = {
 "C01": ("exploration", "bounded-exhaustive enumeration of logical archives (all partial maps of a 5/6-id x 4-content alphabet, metadata/settings alphabets, scale families) through the real writer and reader against a BTreeMap reference model",
         "Every partial map of ids {0,1,2,4,5[,LAST]} into four colliding contents x 4 compressions x {sync,async} writer x {sync,async} reader (50k round trips quick, 250k thorough), all maps of three 100 KiB near-duplicates, a metadata alphabet incl. 140 floats and u64/i64 extremes, all enum/zoom codes, 153 coordinate sextuples judged by an exact nearest-multiple oracle, and leaf-spilling scale families; ids, bytes, absent neighbours, metadata, settings compared exactly.",
         "reference model = BTreeMap + settings; coordinates judged by integer arithmetic on the f64 (harness/src/spec/latlng.rs)", "4/C01"),
 "C02": ("exploration", "bounded-exhaustive enumeration of written archives validated by an independent spec-derived reader, plus parameter sweeps across the 16 KiB root window",
         "Every archive of the C01 corpus and 760 whole-archive sweeps with n in [n*-40,n*+80] around the root-size crossing (8 family x codec combinations) is parsed by the harness's own v3 reader: sections in file and disjoint, header+root <= 16384, directories decode under the declared codec, ordering, tile ranges, counters recomputed, clustered flag, JSON object, spec lookup procedure for every id and its neighbours.",
         "trusts harness/src/spec/archive.rs and the upstream codec crates as decoders", "4/C02"),
 "C03": ("exploration", "bounded-exhaustive product enumeration of foreign archives emitted by an independent spec-level encoder, opened by the real readers and compared with the encoder's own id->(offset,length) table; real-world fixtures compared tile by tile with the spec reader",
         "Full product of section order (6 permutations, root behind a gap) x gap x tree shape (root only, root->leaves, depth 3, mixed) x run length x offset pattern (contiguous, back-references, descending, overlapping) x entry count x metadata kind x 4 compressions (32k archives quick) through from_bytes, from_reader, from_async_reader, util::read_directories(_async) and Directory::find_entry_for_tile_id on every directory; the three upstream fixtures (1.4M tiles) against the spec reader.",
         "trusts the harness's encoder (spec/archive.rs); the fixtures tie encoder and reader to upstream output", "4/C03"),
 "C04": ("model_checking", "explicit-state breadth-first search to fix-point over edit histories of the real PMTiles object (states merged on a canonical key read through the verif hook), BTreeMap reference model checked in every state",
         "All histories over add/remove/save+reopen(sync|async) on adjacent ids with colliding contents from 14 (quick) / 18 (thorough) initial states incl. three foreign archives and four range-filtered opens: the reachable state space is finite and explored completely (per content alphabet: 8.5k states / 94k transitions quick, ~790k states thorough; alphabets: unrelated contents, and contents related as prefix / suffix / concatenation / trailing zero; quick adds all histories of <= 5 operations over four ids and three related contents; both tiers add the four adjacent ids 0..3 with two contents - alternating A,B,A,B - quick to depth 6, thorough to fix-point: 88k states / 1.2M transitions), twice in different exploration orders whose state sets must coincide; initial states include range-filtered opens; every transition is executed on the real object twice (with and without interleaved lookups) and lookups by id and by coordinates, listing and count are compared with the map in every state.",
         "state merging argument in DESIGN.md 4/C04; hook is read-only", "4/C04"),
 "C10": ("model_checking", "bounded-exhaustive archive enumeration in three tile provenances judged by the independent reader, plus an invariant on the hook snapshot in every state of the explicit-state history search",
         "Archive clauses on every small map x 4 codecs x {memory, reader-backed, mixed} x {sync,async} (58k archives quick) and on foreign archives storing a content twice: data length = sum of distinct contents, equal content <=> equal offset, no mergeable neighbours, entry count = number of maximal runs. Retention clause (exactly one stored copy per referenced content, exact reference sets, no orphan) as an invariant in every state of the C04 BFS.",
         "64-bit content hashes assumed collision-free on the alphabets", "4/C10"),
 "C11": ("exploration", "exhaustive enumeration of all bound pairs over structure-derived endpoint sets on library-written and foreign archives, against the full content filtered by RangeBounds::contains",
         "For 9 archives (with and without leaf directories, runs straddling leaf boundaries, a leaf pointer below its leaf's first id) every pair (Included|Excluded|Unbounded)(v) x (Included|Excluded|Unbounded)(v) over v in {0,1,u64::MAX-1,u64::MAX, leaf first ids +-1, run starts/ends +-1, max id +-1} - 14.5k ranges incl. empty and inverted - through the three partial openers and both directory utilities; ids, bytes and absent ids compared; failure or panic is a violation.",
         "full content taken from the independent spec reader; overflow checks on", "4/C11"),
 "C12": ("exploration", "bounded-exhaustive differential enumeration: both API twins on the same inputs (C01/C03/C05/C06/C09 alphabets and the C19 rejection inputs), values and hook snapshots compared",
         "All small maps + metadata/settings alphabets (written by both writers, read by both readers, full and four range-filtered opens, byte identity for Compression::None), the foreign product, all directory lists of <= 2 entries incl. zero-length rejections, the write_directories crossing sweep with initial leaf size default / 4096 / 1000 / 7, 45k header images incl. every enum/version code and truncation: equal values or errors on both sides.",
         "streams are ready-immediately in-memory cursors (fragmentation/Pending is C13)", "4/C12"),
 "C13": ("model_checking", "stateless deviation-bounded exploration (CHESS-style iterative bounding) of every stream call's answer (short transfer sizes, Pending) on the real sync and async code paths; all compositions for tiny objects; uniform schedules",
         "~250 scenarios (header/directory/archive read+write, full and range-filtered opens, lookups, multi-call sessions, backing-reader re-write, directory utilities, codec adapters, padded sections, 70 KB tiles / 9 KB metadata; 4 codecs; sync+async; leaf-spill writers): all executions with <= b deviations, b the largest value <= 3 (quick) / 4 (thorough) whose execution count fits a per-scenario budget (>= 1 even for the 7.7k-call spill writers); every transfer size at every call for directories of <= 17/21 bytes; uniform max-c-bytes / always-Pending schedules. 1.7 M executions and 2*10^8 stream calls in the quick tier. Result, per-call results of sessions, stream image and final position must equal the unfragmented run. Vectored writes are one call offering the concatenation. Replay divergence is a machinery error (exit 2).",
         "controlled stream semantics in DESIGN.md section 8; stays writable after poll_close", "4/C13"),
 "C14": ("exploration", "bounded-exhaustive enumeration of byte strings and of ALL write-split compositions (inputs <= 12 bytes) through the real codec helpers, decoded by the upstream crates and an unrelated inflate",
         "Empty, all 256 single bytes, all strings over {00,FF,41} up to length 6, three 12-byte strings with every composition of write sizes (275k streamed encodes), zeros/xorshift at 4095..2^20+1 (5 MiB thorough) and data.json with fixed chunk sizes; x 4 codecs x one-shot/streaming x sync/async: round trip, strict decode by flate2/brotli/zstd called directly, gzip also by the harness's own inflate+CRC32+ISIZE; Unknown is an error from all six functions.",
         "harness/src/spec/inflate.rs is the unrelated gzip implementation", "4/C14"),
 "C15": ("fault_enumeration", "exhaustive fail-stop fault enumeration: for each scenario's fault-free log of N stream calls, every k<N is executed with call k and all later calls failing",
         "Every fault point of ~190 scenarios (open, range-filtered open, open+one lookup, sessions of open + every id twice + re-write judged call by call, archive/directory/header write incl. 5000-entry directories and 70 KB tiles, re-write over a failing backing reader, read_/write_directories; 4 codecs; sync+async; leaf-spill writers) x 4 error kinds (Other, UnexpectedEof, BrokenPipe, InvalidData) - 80k faulty executions quick: the call must return Err (a success after a failed operation is a violation even if the data happens to be complete); never panic.",
         "fail-stop faults only (transient failures are explored in C20's sessions)", "4/C15"),
 "C16": ("model_checking", "stateless enumeration of ALL edit histories up to a length bound WITHOUT state merging, grouped by final logical content; all insertion-order permutations; three provenances; separate OS processes; rewrite identity over the C01 corpus",
         "All 16k (quick) / 177k (thorough) operation sequences of length <= 4/5 over add/remove/save+reopen from fresh sync and async objects: every group of histories with equal final content must serialise to one byte image; all 720/5040 insertion orders; every small map written from memory, reopened and mixed; 64 archives written in 4/16 separate processes (fresh hash seeds); to_writer(from_bytes(b)) == b for the whole C01 corpus incl. coordinate and float-metadata alphabets; foreign archives idempotent after one rewrite.",
         "sync and async writers use different encoders and are never compared with each other", "4/C16"),
 "C17": ("fault_enumeration", "exhaustive crash-point enumeration over the recorded write/seek log of archive writes; every prefix image is handed to both readers",
         "36 write histories (0/1/3/60 tiles x 4 codecs, leaf-spill archives; sync+async writer): for every k in [0,N] (8.3k crash points) the image after k operations must be rejected unless byte-identical to the complete archive, in which case it must read back as the logical archive.",
         "each write atomic and in program order", "4/C17"),
 "C18": ("exploration", "exhaustive product of start positions x pre-fill modes x archives x writers against the archive written at position 0",
         "P in {0,1,10,126,127,128,4096,16384,70000} x {empty, pattern of P bytes, pattern of P+100000 bytes} x {0 tiles, 3 tiles, leaf spill} x codecs x {sync,async}: prefix untouched, [P,P+L) byte-identical to the P=0 archive, final position P+L, image[P..] opens to the logical archive.",
         "in-memory seekable stream", "4/C18"),
 "C20": ("exploration", "bounded-exhaustive enumeration of archive layouts opened over a recording stream; the set of byte ranges returned to the library is the observation",
         "9k archives quick (library-written incl. leaf spill and 9/20/70 KB metadata; the foreign product with tile data placed directly behind every directory/metadata section, sentinel-filled gaps, level-order leaves) x full and three range-filtered opens x sync/async, then a lookup of every addressed id and absent neighbours: open touches only header/metadata/root/leaf sections and never tile data; each lookup's returned ranges unite to exactly the tile's range; absent ids read nothing. Plus sessions with one transient stream failure at every call index and async sessions with a lookup future dropped at Pending: later lookups return the tile and read inside its range, a later save equals the save without failure.",
         "only which bytes are returned is constrained, not how many calls are made", "4/C20"),
 "C19": ("model_checking", "rejected-operation invariant checked in every state of the explicit-state history search; exhaustive position enumeration for the directory/metadata/compression clauses",
         "add_tile(id, empty) in three argument forms for every id in every reachable state of the C04 BFS (2.2M refused adds quick): Err and snapshot + observations unchanged; zero-length entry at every index of directories of size 1..4 (+1000-entry lists) x 4 codecs x sync/async for parser and serialiser, archives carrying one in root or leaf; every non-object JSON kind as metadata; Unknown compression through writer, opener, directory codec and the six helpers.",
         "spec encoder produces the offending directories", "4/C19"),
 "C05": ("exploration", "bounded-exhaustive enumeration of entry lists (all valid lists <=2 entries over boundary alphabets, <=3 reduced) on the real codec vs an independent spec codec",
         "Every valid directory of <=2 entries over boundary value sets (every case of the offset rule at index 0 and >0), every 3-entry list over a reduced set and three parametric families up to 10^5 entries, x4 compressions x sync/async: parse(serialise(d))==d, serialised bytes == independent spec encoder, parser decodes the spec encoder's output. Exhaustive within those alphabets; no sampling.",
         "trusts harness/src/spec/{varint,dir,codec}.rs (written from the v3 spec) and the upstream codec crates as independent decoders", "4/C05"),
 "C06": ("exploration", "exhaustive parameter sweep of list sizes across the 16 KiB root window (every n in [n*-40,n*+80] per family and codec) through the real directory writer, resolved by the independent decoder",
         "Three entry-list families x 4 codecs: the crossing point n* is located by bisection and every n in the window plus {0,1,2,n*/2,2n*,10n*} is run x initial leaf size {default,1,7,4096,>n} x {sync,async} at stream positions {0,127,1000}: root <= 16257 bytes, spill iff the full list does not fit, only leaf pointers in a spilled root, pointer id = leaf's first id, exact offsets/lengths tiling the leaf section, concatenation == input, read_directories over root+leaves == run-expanded input; plus whole-archive writes over the same window validated by the spec reader.",
         "fits/does-not-fit is judged by the same writer flavour's single-directory encoding size", "4/C06"),
 "C07": ("exploration", "exhaustive enumeration of all (z,x,y) and all ids up to a zoom bound plus boundary products, against the spec's rotate/flip algorithm; lookup clause by exhaustive probe product",
         "All points and all ids of zooms 0..11 (quick) / 0..15 (thorough) forward, inverse, adjacency and children clauses; boundary products for zooms up to 31; ids around every zoom-block edge; 9k out-of-grid / z>=32 lookups against an archive holding every id those probes are mapped to.",
         "trusts harness/src/spec/hilbert.rs (the specification's reference loop, checked against its published vectors)", "4/C07"),
 "C08": ("exploration", "bounded-exhaustive enumeration of deterministic neighbourhoods (every prefix, every boundary byte substitution, every boundary deviation of every varint/header field) of valid archives plus a hazard corpus, executed in isolated worker processes",
         "31k inputs quick (every prefix and 5 substitutions per byte of 12 base archives, 9 boundary values in every varint field of every directory with lengths fixed up or stale, 10 values in every header u64, all 256 codes of enum/zoom/version bytes, 70+ hand-built hazards incl. counts to 2^64-1, wrapping sums, zero first offset, offsets near 2^64, self-pointing leaf, cycles, chains to 10^4; thorough: all pairs of deviations) through 20+ reader/lookup/partial-open/re-write/async calls each, inside workers with RLIMIT_AS 8 GiB, 8 MiB stack and a 60 s alarm: any panic, abort, stack overflow or timeout is attributed to the input and call in flight.",
         "inputs declaring more than 2^22 tiles/steps (lenient reference walk) are skipped and counted, as the property allows; overflow checks on", "4/C08"),
 "C09": ("exploration", "exhaustive sweep of stored coordinate values (all 2^32 in thorough) and boundary enumeration of every header field, against a hand-written LE codec and an exact-rational rounding oracle",
         "decode->encode byte identity for every stored coordinate value (quick: 1.3M incl. all |v|<=2^17; thorough: all 2^32 per field), degrees->stored against the exact nearest multiple of 1e-7 (integer arithmetic on mantissa/exponent), every u64 field one-hot+boundaries, every code 0..255 of each enum/version/clustered byte, every truncation 0..126, trailing bytes; sync and async paths.",
         "trusts harness/src/spec/{header,latlng}.rs", "4/C09"),
}
PENDING = {}
ALL = ["C%02d" % i for i in range(1, 21)]

def main():
    checks = []
    for pid in ALL:
        if pid not in CHECKS:
            continue
        cat, tech, text, note, ref = CHECKS[pid]
        checks.append({
            "property_id": pid,
            "quick_cmd": f"./check {pid} quick",
            "thorough_cmd": f"./check {pid} thorough",
            "evidence_file": f"/verif/evidence/{pid}.json",
            "replay_cmd_template": f"./check {pid} --replay {{path}}",
            "engine": "pmv",
            "level_claimed": {"category": cat, "text": text, "design_ref": f"DESIGN.md section {ref}"},
            "level_note": note,
            "technique": tech,
        })
    na = [{"property_id": p, "reason": PENDING.get(p, "check under construction in this session (see DESIGN.md section 4); not claimed until it runs green on the unchanged tree")}
          for p in ALL if p not in CHECKS]
    hooks_commits = subprocess.run(["git", "-C", "/repo", "log", "--format=%H %s"], capture_output=True, text=True).stdout.splitlines()
    hook_shas = [l.split()[0] for l in hooks_commits if "verif hook" in l]
    m = {
        "version": 1,
        "setup_cmd": "./check --build",
        "hooks": {
            "guard": "cargo feature `verif` of pmtiles2 (off by default)",
            "enable": "harness/Cargo.toml depends on pmtiles2 = { path = \"/repo\", features = [\"async\", \"verif\", \"serde\"] } (verif is the hook; async and serde are the crate's own features)",
            "baseline_off_cmd": "cd /repo && cargo test --workspace --no-fail-fast --offline",
            "source_commits": hook_shas,
            "add_only": True,
        },
        "engines": [
            {"name": "pmv", "path": "/verif/harness", "serves_properties": [c["property_id"] for c in checks],
             "kind_free_text": "Rust harness linking the real pmtiles2 crate from /repo (features async+verif, overflow-checks on): E1 bounded-exhaustive input enumerator, E2 explicit-state BFS over edit histories, E3 deviation-bounded I/O schedule explorer, E4 fault/crash-point enumerator, isolation runner (worker sub-processes)"},
        ],
        "checks": checks,
        "not_applicable": na,
        "notes": "All checks rebuild the harness against /repo's working tree first (./check): two binaries, the library under test with and without debug assertions / overflow checks; a check runs in both (the second with quick-tier bounds; C13/C14 there only in the thorough tier) and a violation in either fails it. exit 2 = machinery failure, never a verdict. Known findings: /verif/known_findings.json.",
    }
    json.dump(m, open("/verif/MANIFEST.json", "w"), indent=1)
    print("MANIFEST.json:", len(checks), "checks,", len(na), "not_applicable")

if __name__ == "__main__":
    main()

#!/bin/bash
# runs every thorough check once, sequentially; evidence goes to $VERIF_EVIDENCE_DIR (default /verif/evidence-thorough)
export VERIF_EVIDENCE_DIR=${VERIF_EVIDENCE_DIR:-/verif/evidence-thorough}
export VERIF_REPLAY_DIR=${VERIF_REPLAY_DIR:-/tmp/thorough-replays}
mkdir -p $VERIF_EVIDENCE_DIR
HERE="$(cd "$(dirname "$0")/.." && pwd)"
for p in ${@:-C01 C02 C03 C04 C05 C06 C07 C08 C09 C10 C11 C12 C13 C14 C15 C16 C17 C18 C19 C20}; do
  s=$(date +%s)
  out=$("$HERE/check" $p thorough 2>&1); code=$?
  e=$(( $(date +%s) - s ))
  echo "$p exit=$code ${e}s $(echo "$out" | grep -E '^\[C..\] tier' | cut -c1-150) $(echo "$out" | grep -m2 -E 'VIOLATION|MACHINERY|violation key' | cut -c1-200)"
done
echo THOROUGH-DONE

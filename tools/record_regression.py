#!/usr/bin/env python3
"""Records the results of the regression pass (tools/run_mutant_iso.sh on patched copies of /repo, current harness) in
seeded/<id>/meta.json and mutants/RESULTS.json. Input: /tmp/regress-pass/<name>.txt (one line per check:
'<name> Cxx exit=N <first violation key>')."""
import json, glob, os, re, sys
res={}
for f in glob.glob('/tmp/regress-pass/*.txt'):
    name=os.path.basename(f)[:-4]
    lines=[]
    for l in open(f):
        m=re.match(r'\S+ (C\d+) exit=(\d+)\s*(.*)', l.strip())
        if m: lines.append((m.group(1), int(m.group(2)), m.group(3)[:200]))
    res[name]=lines
ok=bad=0
for d in sorted(glob.glob('/verif/seeded/*')):
    mp=d+'/meta.json'; m=json.load(open(mp)); n=m['seed']
    if n not in res: continue
    r=res[n]
    caught=[c for c,e,_ in r if e==1]; missed=[c for c,e,_ in r if e==0]; broken=[c for c,e,_ in r if e>=2]
    m['regression_with_final_harness']={"how":"tools/run_mutant_iso.sh <patch> <ids> on a patched copy of /repo (git archive HEAD + patch), both harness binaries, quick tier","caught_by":caught,"not_caught_by":missed,"machinery_failures":broken,"first_keys":[f"{c}: {k}" for c,e,k in r if e==1]}
    json.dump(m, open(mp,'w'), indent=1)
    if caught and not broken: ok+=1
    else: bad+=1; print('NOT CAUGHT / BROKEN:', n, r)
print('seeds recorded', ok+bad, 'caught', ok)
mut={}
for n,r in res.items():
    if n.startswith('own-'):
        mut[n[4:]]={"results":[f"{c} exit={e} {k}" for c,e,k in r],"caught":any(e==1 for _,e,_ in r)}
if mut:
    p='/verif/mutants/RESULTS.json'
    old=json.load(open(p)) if os.path.exists(p) else {}
    old['_regression_with_final_harness']=mut
    json.dump(old, open(p,'w'), indent=1)
    print('mutants', len(mut), 'caught', sum(1 for v in mut.values() if v['caught']))

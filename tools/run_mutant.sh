#!/bin/bash
# usage: tools/run_mutant.sh <patch.diff> [--baseline] <Cxx> [<Cyy> ...]
# Applies a seeded change to /repo, optionally runs the repository's own test suite (must stay
# green), runs the named quick checks with evidence redirected to a scratch dir, and ALWAYS
# restores /repo afterwards. Prints one line per check: "<id> exit=<code> <first violation key>".
set -u
PATCH=$(realpath "$1"); shift
BASE=0
if [ "${1:-}" = "--baseline" ]; then BASE=1; shift; fi
TIER=${TIER:-quick}
if ! git -C /repo diff --quiet; then echo "REFUSING: /repo has uncommitted changes"; exit 2; fi
trap 'git -C /repo reset -q --hard HEAD ; git -C /repo clean -fdq -- src tests examples 2>/dev/null' EXIT
if git -C /repo apply --check "$PATCH" 2>/dev/null; then
  git -C /repo apply "$PATCH"
elif (cd /repo && patch -p1 -s --fuzz=3 --dry-run < "$PATCH" >/dev/null 2>&1); then
  # the patch was written against an earlier commit of /repo: apply with context fuzz
  (cd /repo && patch -p1 -s --fuzz=3 --no-backup-if-mismatch < "$PATCH")
else
  echo "PATCH DOES NOT APPLY: $PATCH"; exit 2
fi
export VERIF_EVIDENCE_DIR=/tmp/mutant-evidence VERIF_REPLAY_DIR=/tmp/mutant-replays
mkdir -p $VERIF_EVIDENCE_DIR $VERIF_REPLAY_DIR
if [ $BASE = 1 ]; then
  (cd /repo && cargo test --workspace --no-fail-fast --offline 2>&1 | grep -E "^test result" | tr '\n' ' '); echo
fi
for id in "$@"; do
  out=$(cd /verif && ./check $id $TIER 2>&1); code=$?
  key=$(echo "$out" | grep -m1 "violation key=" | cut -c1-220)
  echo "$id exit=$code $key"
done

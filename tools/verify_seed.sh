#!/bin/bash
# usage: tools/verify_seed.sh <worktree> <A|B>
# Confirms a sub-agent's seeded change in its scratch worktree: (a) repository test suite green with
# the change, (b) demo fails with the change, (c) demo passes without it.
set -u
WT=$1; X=$2; S=$WT/_seed/$X
cd $WT || exit 2
git checkout -q -- . ; git clean -fdq -- tests examples src 2>/dev/null
export CARGO_NET_OFFLINE=true
first=$(head -1 $S/demo.rs)
place=$(echo "$first" | sed -n 's#.*place at \([^ ;]*\).*#\1#p')
runcmd=$(echo "$first" | sed -n 's#.*run: \(.*\)$#\1#p' | sed 's#  *(.*$##')
[ -z "$place" ] && { echo "cannot parse placement from: $first"; exit 2; }
git apply $S/patch.diff || { echo "PATCH FAILS TO APPLY"; exit 2; }
echo "--- (a) suite with change:"
cargo test --workspace --no-fail-fast --offline 2>&1 | grep -E "^test result|^error" | tr '\n' ' '; echo
mkdir -p $(dirname $place); cp $S/demo.rs $place
echo "--- (b) demo with change: [$runcmd]"
bash -c "$runcmd" > /tmp/demo_with.$$.log 2>&1; echo "exit=$?"; grep -E "^test result|panicked|FAILED" /tmp/demo_with.$$.log | head -4
git checkout -q -- .
echo "--- (c) demo without change:"
bash -c "$runcmd" > /tmp/demo_without.$$.log 2>&1; echo "exit=$?"; grep -E "^test result" /tmp/demo_without.$$.log | head -3
rm -f $place
git status --short | grep -v _seed
rm -f /tmp/demo_with.$$.log /tmp/demo_without.$$.log

#!/usr/bin/env python3
"""usage: assemble_round.py <worktree-prefix> <name-prefix>      e.g. /tmp/w4- R4-
Collects the confirmed sub-agent seeds of one round into /verif/seeded/<name-prefix><Cxx>-<A|B>/ (patch.diff, demo.rs,
notes.md, meta.json). Inputs: <worktree-prefix>Cxx/_seed/{A,B}/, /tmp/seed-results/<name>.verify.txt (verification log of
tools/verify_seed.sh), /tmp/seed-final/<name>.txt (checks run against /repo with the patch applied, tools/run_mutant.sh)."""
import json, os, re, shutil, glob, sys
wp, np_ = sys.argv[1], sys.argv[2]
out='/verif/seeded'
for d in sorted(glob.glob(wp+'C*/_seed/[AB]')):
    m=re.search(r'(C\d+)/_seed/([AB])$', d); pid, x = m.group(1), m.group(2)
    name=f'{np_}{pid}-{x}'
    ver=f'/tmp/seed-results/{name}.verify.txt'
    fin=f'/tmp/seed-final/{name}.txt'
    if not os.path.exists(ver): print(name,'no verification log'); continue
    v=open(ver).read()
    suite = re.search(r'\(a\) suite with change:\n(.*)', v)
    demo_with = re.search(r'\(b\) demo with change:.*\nexit=(\d+)', v)
    demo_without = re.search(r'\(c\) demo without change:\nexit=(\d+)', v)
    ok = suite and 'FAILED' not in suite.group(1) and '51 passed' in suite.group(1) and demo_with and demo_with.group(1)!='0' and demo_without and demo_without.group(1)=='0'
    if not ok:
        print(name, 'NOT CONFIRMED', suite and suite.group(1)[:80], demo_with and demo_with.group(1), demo_without and demo_without.group(1)); continue
    dst=f'{out}/{name}'; os.makedirs(dst, exist_ok=True)
    for f in ['patch.diff','demo.rs','notes.md']:
        shutil.copy(f'{d}/{f}', f'{dst}/{f}')
    caught=[]; missed=[]; lines=[]
    if os.path.exists(fin):
        for l in open(fin):
            mm=re.match(r'(C\d+) exit=(\d+)\s*(.*)', l.strip())
            if mm:
                (caught if mm.group(2)=='1' else missed).append(mm.group(1)); lines.append(l.strip()[:300])
    notes=open(f'{d}/notes.md').read()
    first=open(f'{d}/demo.rs').readline().strip()
    meta={
      "seed": name, "breaks_property": pid,
      "origin": "written by an independent sub-agent that was given only the property's title and statement, the list of mechanism classes already detected in earlier rounds, and its own scratch worktree of /repo (nothing from /verif)",
      "needs_to_manifest": " ".join(notes.split())[:900],
      "demo": first,
      "confirmed_in_scratch_worktree": {"repository_suite_with_change": suite.group(1).strip()[:200], "demo_with_change_exit": int(demo_with.group(1)), "demo_without_change_exit": int(demo_without.group(1)), "how": "tools/verify_seed.sh <worktree> <A|B>"},
      "checks_run_against_repo_with_patch_applied": {"how": "tools/run_mutant.sh seeded/%s/patch.diff <ids> (git -C /repo apply; ./check <id> quick; git -C /repo checkout -- .)"%name, "results": lines},
      "caught_by": caught, "not_caught_by": missed,
    }
    json.dump(meta, open(f'{dst}/meta.json','w'), indent=1)
    print(name, 'ok caught_by', caught, 'not', missed)

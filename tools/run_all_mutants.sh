#!/bin/bash
# runs every mutant of /verif/mutants/INDEX.tsv against its expected catchers (isolated copies)
OUT=${1:-/tmp/mutant-results.txt}
: > $OUT
while IFS=$'\t' read -r name expect; do
  [ -z "$name" ] && continue
  BASELINE=1 /verif/tools/run_mutant_iso.sh /verif/mutants/$name.diff $expect >> $OUT 2>&1
done < /verif/mutants/INDEX.tsv
echo DONE >> $OUT

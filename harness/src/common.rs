//! Small shared helpers: panic capture, compression list, tiny executor.

use pmtiles2::Compression;
use std::cell::RefCell;
use std::panic::{catch_unwind, AssertUnwindSafe};

pub const COMPS: [Compression; 4] = [
    Compression::None,
    Compression::GZip,
    Compression::Brotli,
    Compression::ZStd,
];

pub fn cname(c: Compression) -> &'static str {
    match c {
        Compression::Unknown => "unknown",
        Compression::None => "none",
        Compression::GZip => "gzip",
        Compression::Brotli => "brotli",
        Compression::ZStd => "zstd",
    }
}
pub fn comp_from_name(s: &str) -> Compression {
    match s {
        "none" => Compression::None,
        "gzip" => Compression::GZip,
        "brotli" => Compression::Brotli,
        "zstd" => Compression::ZStd,
        _ => Compression::Unknown,
    }
}
pub fn comp_from_code(c: u8) -> Compression {
    match c {
        1 => Compression::None,
        2 => Compression::GZip,
        3 => Compression::Brotli,
        4 => Compression::ZStd,
        _ => Compression::Unknown,
    }
}

pub fn comp_code(c: Compression) -> u8 {
    match c {
        Compression::Unknown => 0,
        Compression::None => 1,
        Compression::GZip => 2,
        Compression::Brotli => 3,
        Compression::ZStd => 4,
    }
}

thread_local! {
    static LAST_PANIC: RefCell<Option<String>> = const { RefCell::new(None) };
}

/// Install a quiet panic hook that records the message and location per thread.
pub fn install_panic_hook() {
    std::panic::set_hook(Box::new(|info| {
        let msg = if let Some(s) = info.payload().downcast_ref::<&str>() {
            (*s).to_string()
        } else if let Some(s) = info.payload().downcast_ref::<String>() {
            s.clone()
        } else {
            "<non-string panic payload>".to_string()
        };
        let loc = info
            .location()
            .map(|l| format!("{}:{}", l.file(), l.line()))
            .unwrap_or_default();
        LAST_PANIC.with(|p| *p.borrow_mut() = Some(format!("{msg} @ {loc}")));
    }));
}

/// Run the subject; a panic becomes `Err(message @ file:line)`.
pub fn catch<T>(f: impl FnOnce() -> T) -> Result<T, String> {
    LAST_PANIC.with(|p| *p.borrow_mut() = None);
    match catch_unwind(AssertUnwindSafe(f)) {
        Ok(v) => Ok(v),
        Err(_) => Err(LAST_PANIC
            .with(|p| p.borrow_mut().take())
            .unwrap_or_else(|| "panic (no message)".to_string())),
    }
}

/// "file:line" part of a caught panic message, with the path reduced to the crate-relative tail
pub fn panic_site(msg: &str) -> String {
    let loc = msg.rsplit(" @ ").next().unwrap_or("");
    let loc = loc.rsplit("/repo/").next().unwrap_or(loc);
    // registry paths: keep crate dir + file
    if let Some(i) = loc.find("/registry/src/") {
        let tail = &loc[i + 14..];
        return tail.splitn(2, '/').nth(1).unwrap_or(tail).to_string();
    }
    loc.to_string()
}

/// Minimal single-future executor: polls in a loop with a counting waker; the controlled
/// streams wake immediately when they answer `Pending`, so a `Pending` without a wake would
/// spin forever - we cap the number of polls and report that as an error.
pub fn block_on<F: std::future::Future>(fut: F) -> F::Output {
    block_on_counted(fut).0
}

pub fn block_on_counted<F: std::future::Future>(fut: F) -> (F::Output, u64) {
    use std::sync::atomic::{AtomicU64, Ordering};
    use std::sync::Arc;
    use std::task::{Context, Poll, Wake, Waker};
    struct W(AtomicU64);
    impl Wake for W {
        fn wake(self: Arc<Self>) {
            self.0.fetch_add(1, Ordering::Relaxed);
        }
        fn wake_by_ref(self: &Arc<Self>) {
            self.0.fetch_add(1, Ordering::Relaxed);
        }
    }
    let w = Arc::new(W(AtomicU64::new(0)));
    let waker = Waker::from(w.clone());
    let mut cx = Context::from_waker(&waker);
    let mut fut = std::pin::pin!(fut);
    let mut polls = 0u64;
    loop {
        polls += 1;
        let before = w.0.load(Ordering::Relaxed);
        match fut.as_mut().poll(&mut cx) {
            Poll::Ready(v) => return (v, polls),
            Poll::Pending => {
                let after = w.0.load(Ordering::Relaxed);
                if after == before {
                    panic!("HARNESS: future returned Pending without waking (lost wake-up)");
                }
                if polls > 50_000_000 {
                    panic!("HARNESS: poll cap reached");
                }
            }
        }
    }
}

/// deterministic xorshift64* byte stream (part of the alphabets, not a sampler)
pub fn xorshift_bytes(mut s: u64, n: usize) -> Vec<u8> {
    let mut out = Vec::with_capacity(n);
    if s == 0 {
        s = 0x9E37_79B9_7F4A_7C15;
    }
    while out.len() < n {
        s ^= s >> 12;
        s ^= s << 25;
        s ^= s >> 27;
        let v = s.wrapping_mul(0x2545_F491_4F6C_DD1D);
        for b in v.to_le_bytes() {
            if out.len() < n {
                out.push(b);
            }
        }
    }
    out
}

/// FNV-1a 64 over bytes (stable digest for grouping / state keys)
pub fn fnv(b: &[u8]) -> u64 {
    let mut h = 0xcbf2_9ce4_8422_2325u64;
    for x in b {
        h ^= u64::from(*x);
        h = h.wrapping_mul(0x0000_0100_0000_01B3);
    }
    h
}

//! pmv - bounded exhaustive exploration harness for pmtiles2. See /verif/DESIGN.md.
#![allow(dead_code, clippy::too_many_arguments, clippy::type_complexity)]
//! usage: pmv <Cxx> <quick|thorough>   |   pmv <Cxx> --replay <file>   |   pmv worker ...
mod common;
mod engine;
mod env;
mod model;
mod props;
mod report;
mod spec;

fn main() {
    common::install_panic_hook();
    let args: Vec<String> = std::env::args().skip(1).collect();
    if args.is_empty() {
        eprintln!("usage: pmv <Cxx> <quick|thorough> | pmv <Cxx> --replay <file>");
        std::process::exit(2);
    }
    if args[0] == "worker" {
        std::process::exit(engine::isolate::worker_main(&args[1..]));
    }
    let id = args[0].to_uppercase();
    let code = if args.get(1).map(|s| s.as_str()) == Some("--replay") {
        let Some(path) = args.get(2) else {
            eprintln!("--replay needs a file");
            std::process::exit(2);
        };
        props::replay(&id, path)
    } else {
        let tier = match args.get(1) {
            Some(t) => t.clone(),
            None => std::env::var("VERIF_TIER").unwrap_or_else(|_| "quick".to_string()),
        };
        if tier != "quick" && tier != "thorough" {
            eprintln!("tier must be quick or thorough");
            std::process::exit(2);
        }
        let threads = std::env::var("VERIF_THREADS").ok().and_then(|s| s.parse().ok()).unwrap_or(16usize);
        rayon::ThreadPoolBuilder::new().num_threads(threads).stack_size(16 << 20).build_global().ok();
        // run on a big-stack thread: deep recursion in the subject must surface as a finding of the
        // isolation runner, not as a crash of the driver
        let t = tier.clone();
        let h = std::thread::Builder::new().stack_size(64 << 20).spawn(move || props::run(&id, &t)).unwrap();
        match h.join() {
            Ok(c) => c,
            Err(_) => {
                println!("MACHINERY: driver thread panicked");
                2
            }
        }
    };
    std::process::exit(code);
}

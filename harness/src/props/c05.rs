//! C05 - directory encoding is lossless and byte-exact to the v3 specification.
//! Engine E1: bounded-exhaustive enumeration of all valid entry lists over boundary alphabets.
use super::util::*;
use crate::common::{cname, comp_code, comp_from_name, COMPS};
use crate::report::Report;
use crate::spec::{codec, dir, dir::SEntry};
use pmtiles2::Compression;
use rayon::prelude::*;
use serde_json::{json, Value};

const P32: u64 = 1 << 32;
const M32: u32 = u32::MAX;

fn delta_alpha(first: bool, reduced: bool) -> Vec<u64> {
    let mut v = if reduced { vec![1, 128, P32] } else { vec![1, 2, 127, 128, P32, 1 << 56] };
    if first {
        v.insert(0, 0);
    }
    v
}
fn run_alpha(reduced: bool) -> Vec<u32> {
    if reduced { vec![0, 1, 2, M32] } else { vec![0, 1, 2, 127, 128, M32] }
}
fn len_alpha(reduced: bool) -> Vec<u32> {
    if reduced { vec![1, 128, M32] } else { vec![1, 127, 128, M32] }
}
fn off_alpha(prev: Option<&SEntry>, reduced: bool) -> Vec<u64> {
    let mut v = vec![0u64, 1];
    if let Some(p) = prev {
        let c = p.offset + u64::from(p.length);
        v.push(c);
        v.push(c + 1);
        if c > 0 {
            v.push(c - 1);
        }
    }
    if !reduced {
        v.push(P32);
    }
    v.push(1 << 62);
    v.sort_unstable();
    v.dedup();
    v
}

/// all valid single-entry extensions of `prefix`
fn extensions(prefix: &[SEntry], reduced: bool) -> Vec<SEntry> {
    let prev = prefix.last();
    let mut out = Vec::new();
    for d in delta_alpha(prev.is_none(), reduced) {
        let id = match prev {
            None => d,
            Some(p) => {
                // strictly ascending and not inside the previous run
                if d < u64::from(p.run_length.max(1)) {
                    continue;
                }
                match p.tile_id.checked_add(d) {
                    Some(i) => i,
                    None => continue,
                }
            }
        };
        for r in run_alpha(reduced) {
            if id.checked_add(u64::from(r)).is_none() {
                continue;
            }
            for l in len_alpha(reduced) {
                for o in off_alpha(prev, reduced) {
                    out.push(SEntry::new(id, o, l, r));
                }
            }
        }
    }
    out
}

/// check one list under one compression and both APIs; returns (key, detail) complaints
pub fn extensions_pub(prefix: &[SEntry], reduced: bool) -> Vec<SEntry> {
    extensions(prefix, reduced)
}

pub fn check_list(es: &[SEntry], c: Compression) -> Vec<(String, String)> {
    let mut bad = Vec::new();
    let code = comp_code(c);
    let spec_bytes = dir::encode(es);
    for (api, w, r) in [
        ("sync", dir_write_sync as fn(&[SEntry], Compression) -> Out<Vec<u8>>, dir_read_sync as fn(&[u8], Compression) -> Out<Vec<SEntry>>),
        ("async", dir_write_async, dir_read_async),
    ] {
        let tag = format!("{}/{}", cname(c), api);
        // (2) serialisation is byte-exact
        match w(es, c) {
            Out::Ok(bytes) => {
                match codec::decompress(code, &bytes) {
                    Ok(plain) => {
                        if plain != spec_bytes {
                            bad.push((format!("bytes/{tag}"), format!("to_writer output (decompressed) {} != spec encoding {}", crate::report::brief(&plain), crate::report::brief(&spec_bytes))));
                        }
                    }
                    Err(e) => bad.push((format!("stream/{tag}"), format!("independent decoder rejects to_writer output: {e}"))),
                }
                // (1) round trip
                match r(&bytes, c) {
                    Out::Ok(back) => {
                        if back != es {
                            bad.push((format!("roundtrip/{tag}"), format!("parse(serialise(d)) != d: got {:?}", back.iter().take(4).collect::<Vec<_>>())));
                        }
                    }
                    o => bad.push((format!("roundtrip-{}/{tag}", o.kind()), format!("parse of own output: {}", o.describe()))),
                }
            }
            o => bad.push((format!("write-{}/{tag}", o.kind()), format!("to_writer: {}", o.describe()))),
        }
        // (3) parser decodes the independent encoder's output
        let foreign = codec::compress(code, &spec_bytes);
        match r(&foreign, c) {
            Out::Ok(back) => {
                if back != es {
                    bad.push((format!("parse-spec/{tag}"), format!("parse(spec bytes) != d: got {:?}", back.iter().take(4).collect::<Vec<_>>())));
                }
            }
            o => bad.push((format!("parse-spec-{}/{tag}", o.kind()), format!("parse of spec encoding: {}", o.describe()))),
        }
    }
    bad
}

fn long_list(pattern: u32, n: usize) -> Vec<SEntry> {
    let mut v = Vec::with_capacity(n);
    let mut id = 0u64;
    let mut off = 0u64;
    for i in 0..n {
        match pattern {
            // dense ids, contiguous offsets
            0 => {
                let len = 1 + (i as u32 % 300);
                v.push(SEntry::new(id, off, len, 1));
                id += 1;
                off += u64::from(len);
            }
            // far apart ids, runs, back references and big values
            1 => {
                let run = [1u32, 2, 5, 0, 1000][i % 5];
                let len = [1u32, 127, 128, 16384, M32][i % 5];
                let o = if i % 3 == 0 { off } else { (i as u64 * 0x9E37_79B9) % (1 << 40) };
                v.push(SEntry::new(id, o, len, run));
                id += u64::from(run.max(1)) + [0u64, 1, 1 << 20, 1 << 33][i % 4];
                off = o + u64::from(len);
            }
            // perfectly regular (compresses far below one byte per entry)
            3 => {
                v.push(SEntry::new(id, off, 64, 1));
                id += 1;
                off += 64;
            }
            // leaf pointers only
            _ => {
                let len = 100 + (i as u32 % 17);
                v.push(SEntry::new(id, off, len, 0));
                id += 4096;
                off += u64::from(len) + (i as u64 % 2);
            }
        }
    }
    v
}

pub fn run(tier: &str) -> i32 {
    let rep = Report::new("C05", tier, "exploration");
    let thorough = rep.thorough();
    rep.rule("values 128^k-2..128^k+1 (k=1..9) in every column of short lists (every varint length border, explicit offsets are stored +1); all valid entry lists of length 0..2 over boundary alphabets (delta-id {0*,1,2,127,128,2^32,2^56}, run {0,1,2,127,128,2^32-1}, len {1,127,128,2^32-1}, offset {0,1,contig,contig+-1,2^32,2^62}), all lists of length 3 over a reduced alphabet, parametric long lists (four families incl. a perfectly regular one); sequences 'refused directory, failing sink, then valid directory' on one thread; x compressions x sync/async; non-trivial = list with >=1 entry; distinct = distinct lists");
    rep.assume("lists longer than 3 entries are covered only by the three parametric families");
    rep.assume("spec encoder/decoder in harness/src/spec/dir.rs is the trusted reference");

    // ---- length 0..2, full alphabet
    let firsts = extensions(&[], false);
    let mut lists: Vec<Vec<SEntry>> = vec![vec![]];
    for f in firsts.iter() {
        lists.push(vec![*f]);
    }
    // every varint length border in every column: values 128^k - 2 .. 128^k + 1 (k = 1..9, as far as the field is wide)
    // as id, run length, length and explicitly stored offset (offset v is stored as v + 1) of a single entry, and as
    // the second entry's delta / non-contiguous offset behind a fixed first entry
    for k in 1..=9u32 {
        let b = 1u128 << (7 * k);
        for d in [-2i128, -1, 0, 1] {
            let v = (b as i128 + d) as u128;
            if v <= u128::from(u64::MAX >> 1) {
                let v = v as u64;
                lists.push(vec![SEntry::new(v, 0, 1, 1)]);
                lists.push(vec![SEntry::new(0, v, 1, 1)]);
                lists.push(vec![SEntry::new(5, 3, 2, 1), SEntry::new(5 + v, v.max(6), 1, 1)]);
                lists.push(vec![SEntry::new(5, 3, 2, 0), SEntry::new(5 + v.max(1), 1, 7, 1), SEntry::new(6 + v.max(1), v, 1, 0)]);
            }
            if v <= u128::from(u32::MAX) {
                let v = v as u32;
                lists.push(vec![SEntry::new(1, 1, v, 1)]);
                lists.push(vec![SEntry::new(1, 1, 1, v)]);
            }
        }
    }
    lists.retain(|l| dir::is_valid(l));
    rep.count("lists_len0_1", lists.len() as u64);
    let small = lists.clone();
    // compressions on length <= 1 (all four), None on everything
    let comps_small: Vec<Compression> = COMPS.to_vec();
    let res: Vec<(Vec<SEntry>, Compression, Vec<(String, String)>)> = small
        .par_iter()
        .flat_map_iter(|l| comps_small.iter().map(move |c| (l.clone(), *c, check_list(l, *c))))
        .filter(|x| !x.2.is_empty())
        .collect();
    rep.eval((small.len() * comps_small.len()) as u64);
    rep.nontrivial((small.len() - 1) as u64);
    for (l, c, bad) in res {
        for (k, d) in bad {
            rep.violation(k, d, json!({"kind":"list","comp":cname(c),"entries":entries_json(&l)}));
        }
    }

    // length 2: for each first entry, all valid second entries
    let n2: u64 = firsts
        .par_iter()
        .map(|f| {
            let mut n = 0u64;
            let comps2: &[Compression] = if thorough { &COMPS } else { &[Compression::None] };
            for s in extensions(&[*f], false) {
                let l = [*f, s];
                for c in comps2 {
                    // in thorough, codecs only on a 1/16 slice by structure (first entry index), None on all
                    if *c != Compression::None && (f.tile_id != 0 || f.run_length > 1) {
                        continue;
                    }
                    n += 1;
                    for (k, d) in check_list(&l, *c) {
                        rep.violation(k, d, json!({"kind":"list","comp":cname(*c),"entries":entries_json(&l)}));
                    }
                }
            }
            n
        })
        .sum();
    rep.eval(n2);
    rep.nontrivial(n2);
    rep.count("lists_len2_evaluations", n2);

    // thorough: length 3 over the FULL alphabet (None compression, both APIs)
    if thorough {
        let n3f: u64 = firsts
            .par_iter()
            .map(|f| {
                let mut n = 0u64;
                for s in extensions(&[*f], false) {
                    for t in extensions(&[*f, s], false) {
                        let l = [*f, s, t];
                        n += 1;
                        for (k, d) in check_list(&l, Compression::None) {
                            rep.violation(k, d, json!({"kind":"list","comp":"none","entries":entries_json(&l)}));
                        }
                    }
                }
                n
            })
            .sum();
        rep.eval(n3f);
        rep.nontrivial(n3f);
        rep.count("lists_len3_full_alphabet", n3f);
    }
    // length 3 over reduced alphabet
    let firsts_r = extensions(&[], true);
    let n3: u64 = firsts_r
        .par_iter()
        .map(|f| {
            let mut n = 0u64;
            for s in extensions(&[*f], true) {
                for t in extensions(&[*f, s], true) {
                    let l = [*f, s, t];
                    n += 1;
                    for (k, d) in check_list(&l, Compression::None) {
                        rep.violation(k, d, json!({"kind":"list","comp":"none","entries":entries_json(&l)}));
                    }
                }
            }
            n
        })
        .sum();
    rep.eval(n3);
    rep.nontrivial(n3);
    rep.count("lists_len3_reduced", n3);

    // long lists
    let mut ns: Vec<usize> = (0..=300).collect();
    ns.extend_from_slice(&[1000, 10_000, 16_384, 16_385, 20_000]);
    if thorough {
        ns.push(100_000);
    }
    let mut jobs = Vec::new();
    for p in 0..4u32 {
        for n in ns.iter() {
            for c in COMPS {
                // brotli-11 on big lists is slow: quick keeps it to n <= 1000
                if !thorough && c == Compression::Brotli && *n > 1000 && p != 3 {
                    continue;
                }
                jobs.push((p, *n, c));
            }
        }
    }
    let bad: Vec<_> = jobs
        .par_iter()
        .map(|(p, n, c)| {
            let l = long_list(*p, *n);
            debug_assert!(dir::is_valid(&l));
            (*p, *n, *c, check_list(&l, *c))
        })
        .filter(|x| !x.3.is_empty())
        .collect();
    rep.eval(jobs.len() as u64);
    rep.nontrivial(jobs.len() as u64);
    rep.count("long_lists", jobs.len() as u64);
    for (p, n, c, b) in bad {
        for (k, d) in b {
            rep.violation(k, d, json!({"kind":"long","pattern":p,"n":n,"comp":cname(c)}));
        }
    }

    // ---- call sequences: a refused or failed serialisation must not influence the next one
    {
        struct FailingSink(usize);
        impl std::io::Write for FailingSink {
            fn write(&mut self, b: &[u8]) -> std::io::Result<usize> {
                if self.0 == 0 {
                    return Err(std::io::Error::new(std::io::ErrorKind::Other, "sink full"));
                }
                let n = b.len().min(self.0);
                self.0 -= n;
                Ok(n)
            }
            fn flush(&mut self) -> std::io::Result<()> {
                Ok(())
            }
        }
        let valid: Vec<Vec<SEntry>> = vec![vec![], vec![firsts[3]], long_list(0, 40), long_list(1, 9), long_list(3, 5000)];
        let mut nseq = 0u64;
        // run on ONE thread so that any per-thread state left behind by a failure is met by the next call
        for c in COMPS {
            for budget in [0usize, 1, 5, 17, 100] {
                for bad_len_at in [0usize, 1] {
                    for v in valid.iter() {
                        // (1) a directory with a zero-length entry is refused
                        let mut refused = long_list(0, 3);
                        refused[bad_len_at].length = 0;
                        let r1 = dir_write_sync(&refused, c);
                        let r1a = dir_write_async(&refused, c);
                        // (2) a valid directory into a sink that fails after `budget` bytes
                        let r2 = call(|| to_lib_dir(&long_list(1, 30)).to_writer(&mut FailingSink(budget), c));
                        nseq += 1;
                        if !r1.is_err() || !r1a.is_err() {
                            rep.violation("sequence/refusal-missing", "zero-length entry accepted", json!({"kind":"sequence","comp":cname(c)}));
                        }
                        if r2.is_panic() {
                            rep.violation("sequence/failing-sink-panic", r2.describe(), json!({"kind":"sequence","comp":cname(c)}));
                        }
                        // (3) the next serialisations are unaffected
                        for (k, d) in check_list(v, c) {
                            rep.violation(format!("after-failed-call/{k}"), format!("after a refused directory and a sink failing after {budget} bytes: {d}"), json!({"kind":"sequence","comp":cname(c),"budget":budget,"entries":entries_json(v)}));
                        }
                    }
                }
            }
        }
        rep.eval(nseq);
        rep.nontrivial(nseq);
        rep.count("failed_call_then_valid_call_sequences", nseq);
    }

    rep.force_sample(json!({"kind":"list","entries":entries_json(&[firsts[7], extensions(&[firsts[7]], false)[11]])}));
    rep.force_sample(json!({"kind":"long","pattern":1,"n":5,"entries":entries_json(&long_list(1,5))}));
    rep.finish()
}

pub fn replay(case: &Value) -> Vec<String> {
    let c = comp_from_name(case["comp"].as_str().unwrap_or("none"));
    let l = match case["kind"].as_str() {
        Some("long") => long_list(case["pattern"].as_u64().unwrap_or(0) as u32, case["n"].as_u64().unwrap_or(0) as usize),
        _ => entries_from_json(&case["entries"]),
    };
    check_list(&l, c).into_iter().map(|(k, d)| format!("{k}: {d}")).collect()
}

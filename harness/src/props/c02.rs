//! C02 - written archives are valid PMTiles v3 as judged by an independent reader.
use super::c01::{corpus, logical_from_json, logical_to_json, scale_jobs};
use super::gen::*;
use crate::common::{cname, comp_from_name, COMPS};
use crate::model::*;
use crate::report::{hex, Report};
use crate::spec::archive::{spec_lookup, validate};
use pmtiles2::Compression;
use rayon::prelude::*;
use serde_json::{json, Value};

pub const BUDGET: u64 = 1 << 22;

/// write with `w` and validate with the independent reader. complaints (key, detail) + root window hit flag
pub fn validate_written(l: &Logical, w: Api, family: &str, lookup_all: bool) -> (Vec<(String, String)>, Option<(u64, u64)>) {
    let bytes = match write_lib(l, w) {
        Ok(b) => b,
        Err(e) => return (vec![(format!("write-failed/{family}"), format!("{} writer: {e}", w.name()))], None),
    };
    let tag = format!("[{} writer, {}]", w.name(), cname(l.settings.internal));
    validate_bytes(&bytes, l, &tag, family, lookup_all)
}

/// validate `bytes` with the independent reader against the logical archive they are meant to hold
pub fn validate_bytes(bytes: &[u8], l: &Logical, tag: &str, family: &str, lookup_all: bool) -> (Vec<(String, String)>, Option<(u64, u64)>) {
    let mut bad = Vec::new();
    let (parsed, complaints) = validate(bytes, BUDGET);
    for c in complaints {
        let clause = c.split(|ch: char| ch == ':' || ch.is_ascii_digit()).next().unwrap_or("x").trim().replace(' ', "-");
        bad.push((format!("invalid/{clause}/{family}"), format!("{tag} {c}")));
    }
    let Some(p) = parsed else { return (bad, None) };
    // what the independent reader sees must be the logical archive
    let want_ids: Vec<u64> = l.tiles.keys().copied().collect();
    let got_ids: Vec<u64> = p.tiles.keys().copied().collect();
    if want_ids != got_ids {
        bad.push((format!("ids/{family}"), format!("{tag} independent reader addresses {} ids, archive has {}", got_ids.len(), want_ids.len())));
    }
    // the specification's lookup procedure
    let ids: Vec<u64> = if lookup_all || l.tiles.len() <= 64 {
        want_ids.clone()
    } else {
        // large archives: every 37th id plus both ends (the full id set is already compared above)
        want_ids.iter().copied().enumerate().filter(|(i, _)| i % 37 == 0 || *i + 1 == want_ids.len()).map(|(_, v)| v).collect()
    };
    for id in ids.iter() {
        match spec_lookup(bytes, &p.header, *id) {
            Ok(Some(b)) if &b == l.tiles.get(id).unwrap() => {}
            Ok(Some(b)) => bad.push((format!("lookup-bytes/{family}"), format!("{tag} spec lookup of id {id} yields {} instead of {}", crate::report::brief(&b), crate::report::brief(&l.tiles[id])))),
            Ok(None) => bad.push((format!("lookup-missing/{family}"), format!("{tag} spec lookup does not find id {id}"))),
            Err(e) => bad.push((format!("lookup-error/{family}"), format!("{tag} spec lookup of id {id}: {e}"))),
        }
        for nb in [id.wrapping_add(1), id.wrapping_sub(1)] {
            if !l.tiles.contains_key(&nb) {
                match spec_lookup(bytes, &p.header, nb) {
                    Ok(None) => {}
                    Ok(Some(_)) => bad.push((format!("lookup-phantom/{family}"), format!("{tag} spec lookup finds id {nb} which was never added"))),
                    Err(e) => bad.push((format!("lookup-error/{family}"), format!("{tag} spec lookup of id {nb}: {e}"))),
                }
            }
        }
    }
    // metadata as seen by the independent reader
    if p.header.meta_length > 0 {
        if let Ok(serde_json::Value::Object(m)) = serde_json::from_slice::<serde_json::Value>(&p.metadata) {
            if m != l.meta {
                bad.push((format!("metadata/{family}"), format!("{tag} stored metadata differs from what was set")));
            }
        }
    } else if !l.meta.is_empty() {
        bad.push((format!("metadata/{family}"), format!("{tag} metadata section empty although metadata was set")));
    }
    // header settings as stored
    let h = &p.header;
    if h.internal_compression != crate::common::comp_code(l.settings.internal)
        || h.tile_compression != crate::common::comp_code(l.settings.tile_compression)
        || h.tile_type != super::util::code_of_tt(l.settings.tile_type)
        || (h.min_zoom, h.max_zoom, h.center_zoom) != (l.settings.min_zoom, l.settings.max_zoom, l.settings.center_zoom)
    {
        bad.push((format!("header-settings/{family}"), format!("{tag} header settings differ from what was set")));
    }
    (bad, Some((h.root_length, h.leaf_length)))
}

pub fn run(tier: &str) -> i32 {
    let rep = Report::new("C02", tier, "exploration");
    let thorough = rep.thorough();
    rep.rule("every archive of the C01 corpus (all small maps, large contents, metadata, settings, scale families) x {sync,async} writer, plus whole-archive sweeps n in [n*-40,n*+80] around the size where the full directory crosses 16257 bytes (two id families x 4 compressions); each file fully validated by the spec-derived reader (sections, bounds, 16KiB rule, ordering, counters, clustered flag, JSON object) and queried through the spec's lookup procedure for every added id and its neighbours; non-trivial = archives with >=1 tile");
    rep.assume("spec reader in harness/src/spec/archive.rs is the trusted reference; codecs decoded by the upstream crates called directly");

    for c in corpus(thorough) {
        let fam = c.family;
        let res: Vec<(usize, Api, Vec<(String, String)>)> = c
            .items
            .par_iter()
            .enumerate()
            .flat_map_iter(|(i, l)| APIS.into_iter().map(|w| (i, w, validate_written(l, w, fam, true).0)).collect::<Vec<_>>())
            .filter(|x| !x.2.is_empty())
            .collect();
        rep.eval((c.items.len() * 2) as u64);
        rep.nontrivial(c.items.iter().filter(|l| !l.tiles.is_empty()).count() as u64);
        rep.count(&format!("archives_{fam}"), (c.items.len() * 2) as u64);
        for (i, w, bad) in res {
            for (k, d) in bad {
                rep.violation(k, d, json!({"kind":"logical","family":fam,"writer":w.name(),"archive":logical_to_json(&c.items[i])}));
            }
        }
    }

    // scale families
    let jobs = scale_jobs(thorough);
    let res: Vec<_> = jobs
        .par_iter()
        .map(|(p, n, c)| {
            let l = scale_family(*p, *n, *c);
            let mut all = Vec::new();
            let mut spilled = false;
            for w in APIS {
                let (bad, lens) = validate_written(&l, w, "scale", false);
                if let Some((_, leaf)) = lens {
                    spilled |= leaf > 0;
                }
                all.extend(bad.into_iter().map(|b| (w, b)));
            }
            (*p, *n, *c, all, spilled)
        })
        .collect();
    rep.eval((jobs.len() * 2) as u64);
    rep.nontrivial(jobs.len() as u64);
    rep.count("archives_scale", (jobs.len() * 2) as u64);
    rep.count("archives_scale_with_leaf_directories", res.iter().filter(|r| r.4).count() as u64);
    for (p, n, c, all, _) in res {
        for (w, (k, d)) in all.into_iter().take(6) {
            rep.violation(k, d, json!({"kind":"scale","pattern":p,"n":n,"comp":cname(c),"writer":w.name()}));
        }
    }

    // window sweeps: whole archives whose full directory lands just below / inside / above (16257, 16384]
    let mut jobs: Vec<(u32, usize, Compression)> = Vec::new();
    let mut crossings = Vec::new();
    for fam in [0u32, 1] {
        for c in COMPS {
            let nstar = crossing(fam, c, &window_logical_entries);
            crossings.push(json!({"family":fam,"comp":cname(c),"n_star":nstar}));
            let (lo, hi) = if thorough || c != Compression::Brotli { (nstar.saturating_sub(40), nstar + 80) } else { (nstar.saturating_sub(6), nstar + 10) };
            for n in lo..=hi {
                jobs.push((fam, n, c));
            }
        }
    }
    // flat directories of 64..80 KiB and 128..144 KiB (sizes whose low 16 bits look like a fitting root)
    for n in (13_500..=17_500).step_by(if thorough { 250 } else { 1000 }).chain([28_000usize, 29_500]) {
        jobs.push((0, n, Compression::None));
    }
    rep.set("window_crossings", json!(crossings));
    let res: Vec<_> = jobs
        .par_iter()
        .map(|(fam, n, c)| {
            let l = window_logical(*fam, *n, *c);
            let full = lib_dir_size(&window_logical_entries(*fam, *n), *c);
            let w = if n % 2 == 0 { Api::Sync } else { Api::Async };
            let (bad, lens) = validate_written(&l, w, "window", false);
            (*fam, *n, *c, w, bad, full, lens)
        })
        .collect();
    rep.eval(jobs.len() as u64);
    rep.nontrivial(jobs.len() as u64);
    rep.count("archives_window_sweep", jobs.len() as u64);
    rep.count("archives_window_full_dir_in_(16257,16384]", res.iter().filter(|r| r.5 > 16257 && r.5 <= 16384).count() as u64);
    rep.count("archives_window_with_leaf_directories", res.iter().filter(|r| matches!(r.6, Some((_, l)) if l > 0)).count() as u64);
    for (fam, n, c, w, bad, _, _) in res {
        for (k, d) in bad.into_iter().take(4) {
            rep.violation(k, d, json!({"kind":"window","family":fam,"n":n,"comp":cname(c),"writer":w.name()}));
        }
    }
    // archives written after opening and editing an existing archive: the base is library-written (every small map over 3
    // ids with non-empty metadata) or foreign (free layout), opened by either reader, edited (nothing; internal
    // compression changed to each other one; metadata replaced / re-assigned unchanged; tiles removed and added, a tile added below the lowest id; the
    // other header settings changed) and written by the flavour that opened it
    {
        let edits_for = |l: &Logical| -> Vec<(&'static str, Edit)> {
            let mut v: Vec<(&'static str, Edit)> = vec![("none", Edit::default())];
            for c in COMPS {
                if c != l.settings.internal {
                    let mut s = l.settings.clone();
                    s.internal = c;
                    v.push(("internal-compression", Edit { settings: Some(s), ..Edit::default() }));
                }
            }
            v.push(("meta-reassigned", Edit { meta: Some(l.meta.clone()), ..Edit::default() }));
            v.push(("meta-replaced", Edit { meta: Some(json!({"other":[1,2,{"k":null}]}).as_object().unwrap().clone()), ..Edit::default() }));
            v.push(("meta-emptied", Edit { meta: Some(serde_json::Map::new()), ..Edit::default() }));
            let ks = contents4();
            let first = l.tiles.keys().next().copied();
            v.push(("tiles", Edit { remove: first.into_iter().collect(), add: vec![(5, ks[1].clone()), (3, ks[2].clone())], ..Edit::default() }));
            // a tile below (or replacing) the lowest id: in-memory data that belongs in front of everything read back
            v.push(("add-lowest", Edit { add: vec![(0, ks[3].clone())], ..Edit::default() }));
            let mut s = l.settings.clone();
            s.tile_type = pmtiles2::TileType::Mvt;
            s.tile_compression = Compression::GZip;
            s.min_zoom = 2;
            s.max_zoom = 9;
            s.center_zoom = 4;
            s.coords = [-10.5, -20.25, 30.125, 40.0, 1.5, 2.5];
            v.push(("settings", Edit { settings: Some(s), ..Edit::default() }));
            v
        };
        let mut bases: Vec<(Logical, Vec<u8>, String)> = Vec::new();
        for c in COMPS {
            for (i, mut l) in small_maps(3, c).into_iter().enumerate() {
                if !thorough && c == Compression::Brotli && i % 5 != 0 {
                    continue;
                }
                l.meta = json!({"name":"x","version":2,"note":"\u{e9}"}).as_object().unwrap().clone();
                let w = if i % 2 == 0 { Api::Sync } else { Api::Async };
                match write_lib(&l, w) {
                    Ok(b) => bases.push((l, b, format!("lib {} writer", w.name()))),
                    Err(e) => rep.violation("write-failed/rewrite-base", e, json!({"kind":"logical","family":"rewrite-base","writer":w.name(),"archive":logical_to_json(&l)})),
                }
            }
        }
        for (name, bytes, l) in super::foreign::rewrite_bases() {
            bases.push((l, bytes, name));
        }
        let res: Vec<(usize, Api, &'static str, Edit, Vec<(String, String)>)> = bases
            .par_iter()
            .enumerate()
            .flat_map_iter(|(i, (l, bytes, origin))| {
                let mut out = Vec::new();
                for r in APIS {
                    for (ename, e) in edits_for(l) {
                        let want = e.applied_to(l);
                        let tag = format!("[{origin}, opened by the {} reader, edit {ename}, written by the {} writer, {}]", r.name(), r.name(), cname(want.settings.internal));
                        let bad = match edit_rewrite(bytes, r, &e) {
                            Ok(b2) => validate_bytes(&b2, &want, &tag, "rewrite", true).0,
                            Err(x) => vec![("write-failed/rewrite".to_string(), format!("{tag} {x}"))],
                        };
                        out.push((i, r, ename, e, bad));
                    }
                }
                out
            })
            .collect();
        rep.eval(res.len() as u64);
        rep.nontrivial(res.iter().filter(|r| !bases[r.0].0.tiles.is_empty()).count() as u64);
        rep.count("archives_rewritten_after_open_and_edit", res.len() as u64);
        for (i, r, ename, e, bad) in res {
            for (k, d) in bad.into_iter().take(3) {
                rep.violation(k, d, json!({"kind":"rewrite","api":r.name(),"edit_name":ename,"edit":e.to_json(),"base_hex":hex(&bases[i].1),"base":logical_to_json(&bases[i].0)}));
            }
        }
    }
    // thorough: a second independent reading by tools/pyreader.py (Python standard library; none + gzip)
    if thorough {
        pyreader_crosscheck(&rep);
    }
    rep.force_sample(json!({"kind":"window","family":1,"comp":"none","note":"n around the crossing point, see window_crossings"}));
    rep.force_sample(logical_to_json(&small_maps(3, Compression::GZip)[77]));
    rep.finish()
}

fn pyreader_crosscheck(rep: &Report) {
    let dir = std::path::PathBuf::from("/verif/harness/target/pyreader-tmp");
    let _ = std::fs::remove_dir_all(&dir);
    if std::fs::create_dir_all(&dir).is_err() {
        println!("MACHINERY: cannot create {dir:?}");
        return;
    }
    let mut items: Vec<(Logical, Api)> = Vec::new();
    for c in [Compression::None, Compression::GZip] {
        for (i, l) in small_maps(5, c).into_iter().enumerate() {
            if i % 29 == 0 {
                items.push((l, if i % 2 == 0 { Api::Sync } else { Api::Async }));
            }
        }
        let n = crossing(1, c, &window_logical_entries);
        for d in [0usize, 7, 30] {
            items.push((window_logical(1, n + d, c), Api::Sync));
        }
        items.push((scale_family(0, 1500, c), Api::Async));
        items.push((scale_family(2, 300, c), Api::Sync));
    }
    let mut paths = Vec::new();
    for (i, (l, api)) in items.iter().enumerate() {
        match write_lib(l, *api) {
            Ok(b) => {
                let p = dir.join(format!("a{i}.pmtiles"));
                if std::fs::write(&p, &b).is_ok() {
                    paths.push((i, p));
                }
            }
            Err(e) => rep.violation("write-failed/pyreader", e, json!({"kind":"pyreader","index":i})),
        }
    }
    let out = std::process::Command::new("python3").arg("/verif/tools/pyreader.py").args(paths.iter().map(|p| p.1.clone())).output();
    let Ok(out) = out else {
        println!("MACHINERY: cannot run tools/pyreader.py");
        return;
    };
    let text = String::from_utf8_lossy(&out.stdout);
    let mut n = 0u64;
    for (line, (i, _)) in text.lines().zip(paths.iter()) {
        let Ok(v) = serde_json::from_str::<Value>(line) else { continue };
        n += 1;
        let l = &items[*i].0;
        let case = json!({"kind":"pyreader","index":i,"archive": if l.tiles.len() < 10 { super::c01::logical_to_json(l) } else { json!(format!("{} tiles", l.tiles.len())) }});
        if v["ok"].as_bool() != Some(true) {
            rep.violation("pyreader/unreadable", format!("second independent reader fails: {}", v["error"]), case);
            continue;
        }
        for c in v["complaints"].as_array().cloned().unwrap_or_default() {
            rep.violation("pyreader/complaint", format!("second independent reader: {c}"), case.clone());
        }
        let got: std::collections::BTreeMap<u64, String> = v["tiles"].as_object().map(|m| m.iter().map(|(k, x)| (k.parse().unwrap_or(0), x.as_str().unwrap_or("").to_string())).collect()).unwrap_or_default();
        let want: std::collections::BTreeMap<u64, String> = l.tiles.iter().map(|(k, x)| (*k, crate::report::hex(x))).collect();
        if got != want {
            rep.violation("pyreader/tiles", format!("second independent reader sees {} tiles, {} were added (or contents differ)", got.len(), want.len()), case.clone());
        }
        if v["meta"].as_object() != Some(&l.meta) {
            rep.violation("pyreader/metadata", "second independent reader sees different metadata".to_string(), case);
        }
    }
    rep.eval(n);
    rep.nontrivial(n);
    rep.count("archives_read_by_pyreader", n);
    let _ = std::fs::remove_dir_all(&dir);
}

pub fn replay(case: &Value) -> Vec<String> {
    let w = if case["writer"].as_str() == Some("async") || case["api"].as_str() == Some("async") { Api::Async } else { Api::Sync };
    let comp = comp_from_name(case["comp"].as_str().unwrap_or("none"));
    let n = case["n"].as_u64().unwrap_or(0) as usize;
    if case["kind"].as_str() == Some("rewrite") {
        let base = crate::report::unhex(case["base_hex"].as_str().unwrap_or(""));
        let l0 = logical_from_json(&case["base"]);
        let ej = &case["edit"];
        let mut e = Edit::default();
        if !ej["settings"].is_null() {
            e.settings = Some(logical_from_json(&json!({"internal": ej["settings"]["internal"], "settings": ej["settings"]})).settings);
        }
        if let Some(m) = ej["meta"].as_object() {
            e.meta = Some(m.clone());
        }
        e.remove = ej["remove"].as_array().map(|a| a.iter().filter_map(Value::as_u64).collect()).unwrap_or_default();
        e.add = ej["add"].as_array().map(|a| a.iter().map(|p| (p[0].as_u64().unwrap_or(0), crate::report::unhex(p[1].as_str().unwrap_or("")))).collect()).unwrap_or_default();
        let want = e.applied_to(&l0);
        return match edit_rewrite(&base, w, &e) {
            Ok(b2) => validate_bytes(&b2, &want, "[replay]", "rewrite", true).0.into_iter().map(|(k, d)| format!("{k}: {d}")).collect(),
            Err(x) => vec![format!("write-failed/rewrite: {x}")],
        };
    }
    let l = match case["kind"].as_str() {
        Some("scale") => scale_family(case["pattern"].as_u64().unwrap_or(0) as u32, n, comp),
        Some("window") => window_logical(case["family"].as_u64().unwrap_or(0) as u32, n, comp),
        _ => logical_from_json(&case["archive"]),
    };
    validate_written(&l, w, "replay", false).0.into_iter().map(|(k, d)| format!("{k}: {d}")).collect()
}

//! C20 - opening is lazy and every read stays inside the section it serves.
//! E1 with a recording stream: the log of bytes *returned* to the library is the observation.
use super::foreign::{self, Spec};
use super::gen::*;
use super::scen::small_logical;
use crate::common::{block_on, catch, cname, COMPS};
use crate::env::{DefaultChooser, Handle, Kind, OpRec};
use crate::model::*;
use crate::report::Report;
use crate::spec::archive::read_archive;
use crate::spec::header::SHeader;
use pmtiles2::{Compression, PMTiles};
use rayon::prelude::*;
use serde_json::{json, Value};
use std::collections::BTreeMap;
use std::ops::Bound;

pub struct Subject {
    pub name: String,
    pub bytes: Vec<u8>,
    pub case: Value,
}

fn read_ranges(log: &[OpRec]) -> Vec<(u64, u64)> {
    log.iter().filter(|o| o.kind == Kind::Read && o.done > 0).map(|o| (o.pos, o.pos + o.done as u64)).collect()
}

fn inside(r: (u64, u64), allowed: &[(u64, u64)]) -> bool {
    // every byte of r lies in some allowed interval
    let mut p = r.0;
    while p < r.1 {
        match allowed.iter().find(|a| a.0 <= p && p < a.1) {
            Some(a) => p = a.1.min(r.1),
            None => return false,
        }
    }
    true
}

type Rng = (Bound<u64>, Bound<u64>);

pub fn check_subject(s: &Subject, api: Api, range: Rng) -> Vec<(String, String)> {
    let mut bad = Vec::new();
    let p = match read_archive(&s.bytes, 1 << 22) {
        Ok(p) => p,
        Err(e) => return vec![("harness".into(), format!("spec reader cannot read the subject: {e}"))],
    };
    let h: &SHeader = &p.header;
    let allowed = [(0u64, 127u64), (h.meta_offset, h.meta_offset + h.meta_length), (h.root_offset, h.root_offset + h.root_length), (h.leaf_offset, h.leaf_offset + h.leaf_length)];
    let data = (h.data_offset, h.data_offset + h.data_length);
    let hd = Handle::new(s.bytes.clone(), Box::new(DefaultChooser));
    use std::ops::RangeBounds;
    let in_range: BTreeMap<u64, (u64, u32)> = p.tiles.iter().filter(|(id, _)| range.contains(*id)).map(|(a, b)| (*a, *b)).collect();
    let tag = format!("[{} {:?}]", api.name(), range);
    let judge_open = |bad: &mut Vec<(String, String)>| {
        for r in read_ranges(&hd.log()) {
            if r.0 < data.1 && data.0 < r.1 && data.1 > data.0 {
                bad.push(("open-reads-tile-data".into(), format!("{tag} opening read bytes [{},{}) of the tile-data section [{},{})", r.0.max(data.0), r.1.min(data.1), data.0, data.1)));
            } else if !inside(r, &allowed) {
                bad.push(("open-reads-outside-sections".into(), format!("{tag} opening read bytes [{},{}) outside header/metadata/directory sections", r.0, r.1)));
            }
        }
        hd.clear_log();
    };
    let mut probes: Vec<u64> = p.tiles.keys().copied().collect();
    let absent: Vec<u64> = p.tiles.keys().flat_map(|i| [i.wrapping_add(1), i.wrapping_sub(1)]).filter(|i| !p.tiles.contains_key(i)).chain([u64::MAX, 1 << 50]).collect();
    probes.extend(absent.iter().copied());
    probes.sort_unstable();
    probes.dedup();
    let judge_lookup = |id: u64, got: Result<Option<Vec<u8>>, String>, bad: &mut Vec<(String, String)>| {
        let rr = read_ranges(&hd.log());
        hd.clear_log();
        match in_range.get(&id) {
            Some((o, l)) => {
                let want = (h.data_offset + o, h.data_offset + o + u64::from(*l));
                // union of returned ranges == the tile's range, nothing else
                let mut covered = vec![false; *l as usize];
                for r in rr.iter() {
                    if r.0 < want.0 || r.1 > want.1 {
                        bad.push(("lookup-reads-outside-tile".into(), format!("{tag} lookup of id {id} read [{},{}), the tile occupies [{},{})", r.0, r.1, want.0, want.1)));
                    } else {
                        for i in r.0..r.1 {
                            covered[(i - want.0) as usize] = true;
                        }
                    }
                }
                if covered.iter().any(|c| !c) {
                    bad.push(("lookup-reads-less-than-tile".into(), format!("{tag} lookup of id {id} did not read the whole tile range")));
                }
                if got.as_ref().ok().and_then(|o| o.as_ref()).map(|b| b.as_slice()) != Some(&s.bytes[want.0 as usize..want.1 as usize]) {
                    bad.push(("lookup-wrong-bytes".into(), format!("{tag} lookup of id {id} returned {:?}", got.map(|o| o.map(|b| b.len())))));
                }
            }
            None => {
                if !rr.is_empty() {
                    bad.push(("absent-lookup-reads".into(), format!("{tag} lookup of absent id {id} read {rr:?}")));
                }
                if !matches!(got, Ok(None)) {
                    bad.push(("absent-lookup-result".into(), format!("{tag} lookup of absent id {id} returned {:?}", got.map(|o| o.map(|b| b.len())))));
                }
            }
        }
    };
    let r = catch(|| match api {
        Api::Sync => match PMTiles::from_reader_partially(hd.sync(), range) {
            Ok(mut pm) => {
                judge_open(&mut bad);
                for id in probes.iter() {
                    let g = pm.get_tile_by_id(*id).map_err(|e| e.to_string());
                    judge_lookup(*id, g, &mut bad);
                }
            }
            Err(e) => bad.push(("open-fails".into(), format!("{tag} {e}"))),
        },
        Api::Async => match block_on(PMTiles::from_async_reader_partially(hd.asyn(), range)) {
            Ok(mut pm) => {
                judge_open(&mut bad);
                for id in probes.iter() {
                    let g = block_on(pm.get_tile_by_id_async(*id)).map_err(|e| e.to_string());
                    judge_lookup(*id, g, &mut bad);
                }
            }
            Err(e) => bad.push(("open-fails".into(), format!("{tag} {e}"))),
        },
    });
    if let Err(pn) = r {
        bad.push(("panic".into(), format!("{tag} {pn}")));
    }
    bad
}

/// lookups after a transient stream failure: whatever a lookup returns as Ok must be the tile, and its
/// reads must stay inside the tile's range (a stale cursor left behind by the failed call shows here)
pub fn check_transient(s: &Subject, api: Api) -> (Vec<(String, String)>, u64) {
    use crate::env::Transient;
    let mut bad = Vec::new();
    let Ok(p) = read_archive(&s.bytes, 1 << 22) else { return (bad, 0) };
    let ids: Vec<u64> = p.tiles.keys().copied().take(4).collect();
    if ids.is_empty() {
        return (bad, 0);
    }
    let seq: Vec<u64> = ids.iter().chain(ids.iter()).chain(ids.iter().rev()).copied().collect();
    let data_off = p.header.data_offset;
    // one session; returns per-lookup (id, result, read ranges) and the number of calls used by open
    let rewritten: std::sync::Mutex<Option<Result<Vec<u8>, String>>> = std::sync::Mutex::new(None);
    let session = |ch: Box<dyn crate::env::Chooser>| -> Result<(usize, usize, Vec<(u64, Result<Option<Vec<u8>>, String>, Vec<(u64, u64)>)>), String> {
        let hd = Handle::new(s.bytes.clone(), ch);
        let r = catch(|| -> Result<(usize, Vec<(u64, Result<Option<Vec<u8>>, String>, Vec<(u64, u64)>)>), String> {
            let mut out = Vec::new();
            match api {
                Api::Sync => {
                    let mut pm = PMTiles::from_reader(hd.sync()).map_err(|e| e.to_string())?;
                    let oc = hd.calls();
                    hd.clear_log();
                    for id in seq.iter() {
                        let g = pm.get_tile_by_id(*id).map_err(|e| e.to_string());
                        out.push((*id, g, read_ranges(&hd.log())));
                        hd.clear_log();
                    }
                    // finally save the archive through the same (now healthy) backing reader
                    let mut o = std::io::Cursor::new(Vec::new());
                    *rewritten.lock().unwrap() = Some(pm.to_writer(&mut o).map(|_| o.into_inner()).map_err(|e| e.to_string()));
                    Ok((oc, out))
                }
                Api::Async => {
                    let mut pm = block_on(PMTiles::from_async_reader(hd.asyn())).map_err(|e| e.to_string())?;
                    let oc = hd.calls();
                    hd.clear_log();
                    for id in seq.iter() {
                        let g = block_on(pm.get_tile_by_id_async(*id)).map_err(|e| e.to_string());
                        out.push((*id, g, read_ranges(&hd.log())));
                        hd.clear_log();
                    }
                    let mut o = futures::io::Cursor::new(Vec::new());
                    *rewritten.lock().unwrap() = Some(block_on(pm.to_async_writer(&mut o)).map(|_| o.into_inner()).map_err(|e| e.to_string()));
                    Ok((oc, out))
                }
            }
        });
        match r {
            Ok(Ok((oc, out))) => Ok((oc, hd.calls(), out)),
            Ok(Err(e)) => Err(e),
            Err(pn) => Err(format!("PANIC {pn}")),
        }
    };
    let Ok((open_calls, total, _)) = session(Box::new(DefaultChooser)) else { return (bad, 0) };
    let clean_rewrite = rewritten.lock().unwrap().take();
    let mut n = 0u64;
    for fail_at in open_calls..total {
        for short in [None, Some(1usize), Some(2)] {
            // the short transfer (if any) hits the call right before the failing one
            let short_at = short.and_then(|sz| if fail_at > open_calls { Some((fail_at - 1, sz)) } else { None });
            if short.is_some() && short_at.is_none() {
                continue;
            }
            n += 1;
            match session(Box::new(Transient { short_at, fail_at })) {
                Ok((_, _, lookups)) => {
                    // a save after the failed lookup must produce the same archive as a save without any failure
                    if let (Some(Ok(clean)), Some(Ok(now))) = (clean_rewrite.as_ref(), rewritten.lock().unwrap().take().as_ref()) {
                        if clean != now {
                            bad.push(("save-after-failed-lookup-differs".to_string(), format!("[{} transient failure at call {fail_at}, short {short_at:?}] the archive saved afterwards has {} bytes and differs from the one saved without a failure ({} bytes)", api.name(), now.len(), clean.len())));
                        }
                    }
                    for (k, (id, got, rr)) in lookups.iter().enumerate() {
                        let (o, l) = p.tiles[id];
                        let want = (data_off + o, data_off + o + u64::from(l));
                        let tag = format!("[{} transient failure at call {fail_at}, short {short_at:?}] lookup #{k} of id {id}", api.name());
                        for r in rr {
                            if r.0 < want.0 || r.1 > want.1 {
                                bad.push(("lookup-after-failure-reads-outside-tile".to_string(), format!("{tag} read [{},{}), the tile occupies [{},{})", r.0, r.1, want.0, want.1)));
                            }
                        }
                        match got {
                            Ok(Some(b)) if b.as_slice() == &s.bytes[want.0 as usize..want.1 as usize] => {}
                            Err(_) => {}
                            other => bad.push(("lookup-after-failure-wrong-bytes".to_string(), format!("{tag} returned {:?}", other.as_ref().map(|o| o.as_ref().map(|b| crate::report::brief(b)))))),
                        }
                    }
                }
                Err(e) if e.starts_with("PANIC") => bad.push(("lookup-after-failure-panic".to_string(), e)),
                Err(_) => {}
            }
            if bad.len() > 8 {
                return (bad, n);
            }
        }
    }
    (bad, n)
}

/// async only: a lookup future is dropped while the stream answers Pending (cancellation), then the same
/// lookup is issued again; the retry must return the tile and read inside its range
pub fn check_cancellation(s: &Subject) -> (Vec<(String, String)>, u64) {
    use crate::env::{Answer, Chooser, Kind};
    use std::future::Future;
    use std::task::{Context, Poll};
    struct PendingAt {
        at: usize,
        short_before: Option<usize>,
    }
    impl Chooser for PendingAt {
        fn choose(&mut self, idx: usize, _: Kind, _: usize, _: bool) -> Answer {
            if idx == self.at {
                Answer::Pending(1, 0)
            } else if idx + 1 == self.at {
                match self.short_before {
                    Some(n) => Answer::Short(n),
                    None => Answer::Full,
                }
            } else {
                Answer::Full
            }
        }
    }
    let mut bad = Vec::new();
    let Ok(p) = read_archive(&s.bytes, 1 << 22) else { return (bad, 0) };
    let ids: Vec<u64> = p.tiles.keys().copied().take(3).collect();
    if ids.len() < 2 {
        return (bad, 0);
    }
    let data_off = p.header.data_offset;
    // number of calls: open, then one complete lookup of ids[0]
    let probe = Handle::new(s.bytes.clone(), Box::new(DefaultChooser));
    let Ok(Ok(mut pm0)) = catch(|| block_on(PMTiles::from_async_reader(probe.asyn()))) else { return (bad, 0) };
    let _ = block_on(pm0.get_tile_by_id_async(ids[0]));
    let after_first = probe.calls();
    let _ = block_on(pm0.get_tile_by_id_async(ids[1]));
    let after_second = probe.calls();
    let mut n = 0u64;
    for at in after_first..after_second + 1 {
        for short_before in [None, Some(1usize), Some(3)] {
            n += 1;
            let hd = Handle::new(s.bytes.clone(), Box::new(PendingAt { at, short_before }));
            let r = catch(|| -> Result<Vec<(u64, Result<Option<Vec<u8>>, String>, Vec<(u64, u64)>)>, String> {
                let mut pm = block_on(PMTiles::from_async_reader(hd.asyn())).map_err(|e| e.to_string())?;
                let mut out = Vec::new();
                let _ = block_on(pm.get_tile_by_id_async(ids[0])).map_err(|e| e.to_string())?;
                // poll the second lookup until the stream says Pending, then drop the future
                {
                    let waker = futures::task::noop_waker();
                    let mut cx = Context::from_waker(&waker);
                    let mut fut = Box::pin(pm.get_tile_by_id_async(ids[1]));
                    let mut polls = 0;
                    loop {
                        polls += 1;
                        match fut.as_mut().poll(&mut cx) {
                            Poll::Ready(_) => break,
                            Poll::Pending => break,
                        }
                        #[allow(unreachable_code)]
                        if polls > 4 {
                            break;
                        }
                    }
                    drop(fut);
                }
                hd.clear_log();
                for id in [ids[1], ids[0], ids[1]] {
                    let g = block_on(pm.get_tile_by_id_async(id)).map_err(|e| e.to_string());
                    out.push((id, g, read_ranges(&hd.log())));
                    hd.clear_log();
                }
                Ok(out)
            });
            match r {
                Ok(Ok(lookups)) => {
                    for (k, (id, got, rr)) in lookups.iter().enumerate() {
                        let (o, l) = p.tiles[id];
                        let want = (data_off + o, data_off + o + u64::from(l));
                        let tag = format!("[async, lookup future dropped at Pending call {at}, short {short_before:?}] lookup #{k} of id {id}");
                        for r in rr {
                            if r.0 < want.0 || r.1 > want.1 {
                                bad.push(("lookup-after-cancellation-reads-outside-tile".to_string(), format!("{tag} read [{},{}), the tile occupies [{},{})", r.0, r.1, want.0, want.1)));
                            }
                        }
                        match got {
                            Ok(Some(b)) if b.as_slice() == &s.bytes[want.0 as usize..want.1 as usize] => {}
                            Err(_) => {}
                            other => bad.push(("lookup-after-cancellation-wrong-bytes".to_string(), format!("{tag} returned {:?}", other.as_ref().map(|o| o.as_ref().map(|b| crate::report::brief(b)))))),
                        }
                    }
                }
                Ok(Err(_)) => {}
                Err(pn) => bad.push(("lookup-after-cancellation-panic".to_string(), pn)),
            }
            if bad.len() > 6 {
                return (bad, n);
            }
        }
    }
    (bad, n)
}

pub fn subjects(thorough: bool) -> Vec<Subject> {
    let mut v = Vec::new();
    for c in COMPS {
        let l = small_logical(c);
        v.push(Subject { name: format!("lib-small/{}", cname(c)), bytes: write_lib(&l, Api::Sync).unwrap(), case: json!({"lib":"small","comp":cname(c)}) });
        let l = scale_family(2, 40, c);
        v.push(Subject { name: format!("lib-alternating-40/{}", cname(c)), bytes: write_lib(&l, Api::Async).unwrap(), case: json!({"lib":"alternating","comp":cname(c)}) });
    }
    // metadata larger than the buffers on the read path (8 KiB BufReader, 4 KiB codec buffers, 64 KiB), not a
    // multiple of any of them, directly followed by the tile data
    for c in COMPS {
        for size in [9_000usize, 20_000, 70_001] {
            let mut l = small_logical(c);
            // incompressible text so that the stored section is large for every codec
            let noise: String = crate::common::xorshift_bytes(size as u64, size).iter().map(|b| (b'a' + b % 26) as char).collect();
            l.meta.insert("noise".into(), serde_json::Value::String(noise));
            v.push(Subject { name: format!("lib-big-meta-{size}/{}", cname(c)), bytes: write_lib(&l, Api::Sync).unwrap(), case: json!({"lib":"big-meta","size":size,"comp":cname(c)}) });
        }
    }
    // tiles above 1 MiB (not a multiple of it) followed by further tiles
    {
        let mut l = small_logical(Compression::GZip);
        l.tiles.insert(7, crate::common::xorshift_bytes(77, (1 << 20) + 5));
        l.tiles.insert(8, b"behind-the-big-one".to_vec());
        l.tiles.insert(9, crate::common::xorshift_bytes(78, (2 << 20) + 4097));
        l.tiles.insert(10, b"last".to_vec());
        v.push(Subject { name: "lib-tiles-above-1MiB/gzip".into(), bytes: write_lib(&l, Api::Sync).unwrap(), case: json!({"lib":"huge-tiles"}) });
    }
    // a tile above 16 MiB (not a multiple of it) followed by further tiles
    {
        let mut l = small_logical(Compression::None);
        l.tiles.insert(7, crate::common::xorshift_bytes(79, (16 << 20) + 70_001));
        l.tiles.insert(8, b"behind-the-very-big-one".to_vec());
        l.tiles.insert(9, crate::common::xorshift_bytes(80, 300_000));
        v.push(Subject { name: "lib-tile-above-16MiB/none".into(), bytes: write_lib(&l, Api::Async).unwrap(), case: json!({"lib":"tile-above-16MiB"}) });
    }
    // one leaf directory of 20 000 irregular entries: its stored form is far above 16 KiB for every codec (the library's
    // own writer never produces such a leaf), and it is the last thing in front of the tile data
    for comp in 1..=4u8 {
        use crate::spec::archive::{encode_foreign, Layout, Node};
        use crate::spec::dir::SEntry;
        let data: Vec<u8> = crate::common::xorshift_bytes(5, 64);
        let noise = crate::common::xorshift_bytes(6, 60_000);
        let mut id = 0u64;
        let entries: Vec<Node> = (0..20_000usize)
            .map(|k| {
                id += 1 + u64::from(noise[3 * k] % 3);
                Node::Tile(SEntry::new(id, u64::from(noise[3 * k + 1] % 60), 1 + u32::from(noise[3 * k + 2] % 4), 1))
            })
            .collect();
        let root = vec![Node::Tile(SEntry::new(0, 0, 3, 1)), Node::Leaf(1, entries)];
        let f = encode_foreign(&root, &data, Some(b"{}"), comp, &Layout::default(), crate::spec::header::SHeader { tile_type: 2, tile_compression: 1, ..crate::spec::header::SHeader::default() });
        v.push(Subject { name: format!("foreign/one-big-leaf/c{comp}"), bytes: f.bytes, case: json!({"foreign":"one-big-leaf","comp":comp}) });
    }
    for comp in 1..=4u8 {
        v.push(Subject { name: format!("foreign/mixed-shorthand/c{comp}"), bytes: foreign::mixed_shorthand(comp).bytes, case: json!({"foreign":"mixed-shorthand","comp":comp}) });
    }
    for c in [Compression::None, Compression::GZip] {
        let n = crossing(1, c, &window_logical_entries) + 10;
        let l = window_logical(1, n, c);
        v.push(Subject { name: format!("lib-leaf-spill/{}", cname(c)), bytes: write_lib(&l, Api::Sync).unwrap(), case: json!({"lib":"window","n":n,"comp":cname(c)}) });
    }
    // foreign layouts: the whole C03 product with at least one entry (quick: those with 3 or 7 entries and run<=2)
    for s in foreign::product(thorough) {
        if s.n == 0 {
            continue;
        }
        if !thorough && (s.n < 3 || s.run == 3 || s.meta == 1) {
            continue;
        }
        v.push(Subject { name: format!("foreign/{:?}/{:?}/o{}g{}", s.shape, s.offs, s.order, s.gap), bytes: foreign::build(&s).bytes, case: s.to_json() });
    }
    v
}

fn ranges_for(s: &Subject) -> Vec<Rng> {
    let mut v: Vec<Rng> = vec![(Bound::Unbounded, Bound::Unbounded)];
    if let Ok(p) = read_archive(&s.bytes, 1 << 22) {
        let ids: Vec<u64> = p.tiles.keys().copied().collect();
        if ids.len() >= 2 {
            let mid = ids[ids.len() / 2];
            v.push((Bound::Included(mid), Bound::Unbounded));
            v.push((Bound::Unbounded, Bound::Excluded(mid)));
            v.push((Bound::Excluded(ids[0]), Bound::Included(mid)));
        }
    }
    v
}

pub fn run(tier: &str) -> i32 {
    let rep = Report::new("C20", tier, "exploration");
    let thorough = rep.thorough();
    rep.rule("library-written archives (small, alternating duplicates, leaf spill, big metadata, tiles above 1 MiB and above 16 MiB; 4 compressions), a foreign archive with one leaf directory of 20 000 entries (stored form far above 16 KiB) and the foreign product of C03 (section permutations so that tile data directly follows each directory/metadata section, gaps filled with a sentinel, depth 1-3, 4 compressions), opened in full and with three range filters through the sync and the async reader over a recording stream, followed by a lookup of EVERY addressed id and of absent neighbours; oracle on the bytes returned by the stream: open touches only header, metadata, root and leaf sections and never the tile-data section; a lookup's returned ranges unite to exactly the tile's range; absent ids read nothing; additionally opens of archives whose root directory (directly in front of the tile data) is cut short by 1-2 bytes or announces one entry too many: no byte of the tile data may be fetched; sessions of lookups with ONE transient stream failure at every call index (optionally after a 1- or 2-byte short read): every later Ok lookup returns the tile and reads inside its range; and async sessions in which a lookup future is dropped at a Pending answer and the lookup is retried; non-trivial = archives with >= 1 tile");
    rep.assume("how often or in how many calls a section is read is not constrained; only which bytes are returned to the library");
    let subs = subjects(thorough);
    let res: Vec<(usize, Api, Rng, Vec<(String, String)>)> = subs
        .par_iter()
        .enumerate()
        .flat_map_iter(|(i, s)| {
            let mut out = Vec::new();
            let big = s.bytes.len() > 100_000;
            for (ri, r) in ranges_for(s).into_iter().enumerate() {
                for api in APIS {
                    if big && ri > 1 {
                        continue;
                    }
                    out.push((i, api, r, check_subject(s, api, r)));
                }
            }
            out
        })
        .collect();
    rep.eval(res.len() as u64);
    rep.nontrivial(subs.len() as u64);
    rep.count("archives", subs.len() as u64);
    rep.count("open+lookup_sessions", res.len() as u64);
    for (i, api, r, bad) in res {
        for (k, d) in bad.into_iter().take(4) {
            rep.violation(format!("{k}/{}", api.name()), format!("[{}] {d}", subs[i].name), json!({"kind":"lazy","subject":subs[i].name,"api":api.name(),"archive":subs[i].case,"range":format!("{r:?}")}));
        }
    }
    // damaged directories in front of the tile data: the root directory lacks its last 1 or 2 bytes (the rest of the file moved up, offsets adjusted), or
    // its entry count announces one entry more than the section holds. Whatever the open makes of it (the unchanged
    // library refuses), it must not fetch a byte of the tile-data section, which starts right behind the directory.
    {
        let mut cases: Vec<(String, Vec<u8>, (u64, u64), Value)> = Vec::new();
        for spec in foreign::product(false).into_iter().filter(|s| s.order >= 4 && s.gap == 0 && !s.root_gap && s.shape == foreign::Shape::RootOnly && s.n >= 3 && s.meta == 2 && s.cv == 0 && s.offs == foreign::Offs::Contiguous && s.run == 1) {
            let f = foreign::build(&spec);
            let h = f.header.clone();
            let data = (h.data_offset, h.data_offset + h.data_length);
            for cut in [1u64, 2] {
                // the last `cut` bytes of the root directory are missing from the file: everything behind it (the tile
                // data first) moves up, all offsets are adjusted - a consistent archive whose directory ends too early
                if h.root_length > cut && h.root_offset == 127 {
                    let mut h2 = h.clone();
                    h2.root_length -= cut;
                    h2.meta_offset -= cut;
                    h2.leaf_offset -= cut;
                    h2.data_offset -= cut;
                    let end = (h.root_offset + h.root_length) as usize;
                    let mut b = f.bytes[..end - cut as usize].to_vec();
                    b.extend_from_slice(&f.bytes[end..]);
                    b[..127].copy_from_slice(&h2.encode());
                    let data = (h2.data_offset, h2.data_offset + h2.data_length);
                    let mut case = spec.to_json();
                    case["damage"] = json!(format!("root-length-minus-{cut}"));
                    cases.push((format!("foreign n={} comp={} root length -{cut}", spec.n, spec.comp), b, data, case));
                }
            }
            if spec.comp == 1 {
                let mut b = f.bytes.clone();
                b[h.root_offset as usize] += 1;
                let mut case = spec.to_json();
                case["damage"] = json!("entry-count-plus-1");
                cases.push((format!("foreign n={} comp=1 entry count +1", spec.n), b, data, case));
            }
        }
        let res: Vec<(usize, Api, Vec<(String, String)>)> = cases
            .par_iter()
            .enumerate()
            .flat_map_iter(|(i, (_, bytes, data, _))| {
                APIS.into_iter()
                    .map(|api| {
                        let hd = Handle::new(bytes.clone(), Box::new(DefaultChooser));
                        let mut bad = Vec::new();
                        let r = catch(|| match api {
                            Api::Sync => PMTiles::from_reader(hd.sync()).map(|p| p.num_tiles()).map_err(|e| e.to_string()),
                            Api::Async => block_on(PMTiles::from_async_reader(hd.asyn())).map(|p| p.num_tiles()).map_err(|e| e.to_string()),
                        });
                        if let Err(p) = &r {
                            bad.push(("damaged-directory-panic".to_string(), p.clone()));
                        }
                        for rr in read_ranges(&hd.log()) {
                            if rr.0 < data.1 && data.0 < rr.1 && data.1 > data.0 {
                                bad.push(("damaged-directory-open-reads-tile-data".to_string(), format!("opening (result {:?}) read bytes [{},{}) of the tile-data section [{},{})", r.as_ref().map(|x| x.as_ref().map_err(|e| e.chars().take(60).collect::<String>())), rr.0.max(data.0), rr.1.min(data.1), data.0, data.1)));
                                break;
                            }
                        }
                        (i, api, bad)
                    })
                    .collect::<Vec<_>>()
            })
            .collect();
        rep.eval(res.len() as u64);
        rep.count("damaged_directory_opens", res.len() as u64);
        for (i, api, bad) in res {
            for (k, d) in bad.into_iter().take(2) {
                rep.violation(format!("{k}/{}", api.name()), format!("[{}] {d}", cases[i].0), json!({"kind":"damaged-directory","api":api.name(),"spec":cases[i].3}));
            }
        }
    }
    // transient failures during lookups (small subjects only: the session is replayed once per call index)
    let small: Vec<&Subject> = subs.iter().filter(|s| s.bytes.len() < 4000).step_by(if thorough { 1 } else { 37 }).collect();
    let tres: Vec<(usize, Api, Vec<(String, String)>, u64)> = small
        .par_iter()
        .enumerate()
        .flat_map_iter(|(i, s)| APIS.into_iter().map(move |api| { let (b, n) = check_transient(s, api); (i, api, b, n) }).collect::<Vec<_>>())
        .collect();
    let cres: Vec<(usize, Vec<(String, String)>, u64)> = small.par_iter().enumerate().map(|(i, s)| { let (b, n) = check_cancellation(s); (i, b, n) }).collect();
    rep.count("cancellation_sessions", cres.iter().map(|t| t.2).sum());
    rep.eval(cres.iter().map(|t| t.2).sum());
    for (i, bad, _) in cres {
        for (k, d) in bad.into_iter().take(3) {
            rep.violation(format!("{k}/async"), format!("[{}] {d}", small[i].name), json!({"kind":"lazy","subject":small[i].name,"api":"async","archive":small[i].case,"range":"cancellation"}));
        }
    }
    rep.count("transient_failure_sessions", tres.iter().map(|t| t.3).sum());
    rep.eval(tres.iter().map(|t| t.3).sum());
    for (i, api, bad, _) in tres {
        for (k, d) in bad.into_iter().take(3) {
            rep.violation(format!("{k}/{}", api.name()), format!("[{}] {d}", small[i].name), json!({"kind":"lazy","subject":small[i].name,"api":api.name(),"archive":small[i].case,"range":"transient"}));
        }
    }
    rep.force_sample(json!({"subject":subs[subs.len() / 2].name,"archive":subs[subs.len() / 2].case}));
    rep.force_sample(json!({"subject":subs[0].name,"archive":subs[0].case}));
    rep.finish()
}

pub fn replay(case: &Value) -> Vec<String> {
    let name = case["subject"].as_str().unwrap_or("");
    let subs = subjects(true);
    let Some(s) = subs.iter().find(|s| s.name == name && s.case == case["archive"]) else { return vec![format!("unknown subject {name}")] };
    let mut out = Vec::new();
    for api in APIS {
        for r in ranges_for(s) {
            out.extend(check_subject(s, api, r).into_iter().map(|(k, d)| format!("{k}: {d}")));
        }
    }
    for api in APIS {
        out.extend(check_transient(s, api).0.into_iter().map(|(k, d)| format!("{k}: {d}")));
    }
    out.extend(check_cancellation(s).0.into_iter().map(|(k, d)| format!("{k}: {d}")));
    let _ = Spec::from_json(&case["archive"]);
    out
}

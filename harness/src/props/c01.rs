//! C01 - write -> read round trip preserves every tile, the metadata and header settings.
//! Engine E1 on the real writer and reader, reference model = BTreeMap + settings.
use super::gen::*;
use crate::common::{cname, comp_from_name, fnv, COMPS};
use crate::model::*;
use crate::report::Report;
use pmtiles2::Compression;
use rayon::prelude::*;
use serde_json::{json, Value};
use std::collections::BTreeSet;
use std::sync::Mutex;

/// one round trip: write with `w`, read with both readers; complaints as (key, detail)
pub fn round_trip(l: &Logical, w: Api, family: &str, extra_probes: &[u64]) -> (Vec<(String, String)>, Option<u64>) {
    let mut bad = Vec::new();
    let bytes = match write_lib(l, w) {
        Ok(b) => b,
        Err(e) => {
            let k = if e.starts_with("PANIC") { "write-panic" } else { "write-error" };
            bad.push((format!("{k}/{family}"), format!("{} writer: {e}", w.name())));
            return (bad, None);
        }
    };
    let probes = probes_for(l, extra_probes);
    for r in APIS {
        match open_view(&bytes, r, &probes) {
            Ok(v) => {
                for (clause, d) in compare_view(l, &v) {
                    bad.push((format!("{clause}/{family}"), format!("[{} writer, {} reader, {}] {d}", w.name(), r.name(), cname(l.settings.internal))));
                }
            }
            Err(e) => {
                let k = if e.starts_with("PANIC") { "open-panic" } else { "open-error" };
                bad.push((format!("{k}/{family}"), format!("[{} writer, {} reader, {}] {e}", w.name(), r.name(), cname(l.settings.internal))));
            }
        }
    }
    // second generation: what was written is opened, written again by the flavour that opened it, and opened once
    // more - the archive a user gets after "open, save" must still be the same archive (archives up to 64 KiB)
    if bytes.len() <= 65_536 && bad.is_empty() {
        for r in APIS {
            match edit_rewrite(&bytes, r, &Edit::default()) {
                Ok(b2) => match open_view(&b2, w, &probes) {
                    Ok(v) => {
                        for (clause, d) in compare_view(l, &v) {
                            bad.push((format!("second-generation/{clause}/{family}"), format!("[{} writer, re-written by the {} API, {}] {d}", w.name(), r.name(), cname(l.settings.internal))));
                        }
                    }
                    Err(e) => bad.push((format!("second-generation/open-error/{family}"), format!("[{} writer, re-written by the {} API] {e}", w.name(), r.name()))),
                },
                Err(e) => bad.push((format!("second-generation/rewrite-error/{family}"), format!("[{} writer, re-written by the {} API] {e}", w.name(), r.name()))),
            }
        }
    }
    (bad, Some(fnv(&bytes)))
}

fn case_json(l: &Logical, w: Api, family: &str) -> Value {
    json!({"kind":"logical","family":family,"writer":w.name(),"archive":logical_to_json(l)})
}

/// full serialisation of a logical archive for replay files (large contents abbreviated by generator reference)
pub fn logical_to_json(l: &Logical) -> Value {
    json!({
        "tiles": l.tiles.iter().map(|(i,c)| json!([i.to_string(), if c.len() <= 64 { crate::report::hex(c) } else { format!("len:{}:fnv:{:016x}", c.len(), fnv(c)) }])).collect::<Vec<_>>(),
        "meta": Value::Object(l.meta.clone()),
        "internal": cname(l.settings.internal),
        "settings": l.settings.to_json(),
    })
}
pub fn logical_from_json(v: &Value) -> Logical {
    let mut l = Logical::new(comp_from_name(v["internal"].as_str().unwrap_or("none")));
    if let Some(a) = v["tiles"].as_array() {
        for t in a {
            let id: u64 = t[0].as_str().and_then(|s| s.parse().ok()).unwrap_or(0);
            let c = t[1].as_str().unwrap_or("");
            if !c.starts_with("len:") {
                l.tiles.insert(id, crate::report::unhex(c));
            }
        }
    }
    if let Some(m) = v["meta"].as_object() {
        l.meta = m.clone();
    }
    let s = &v["settings"];
    if let Some(z) = s["zooms"].as_array() {
        l.settings.min_zoom = z[0].as_u64().unwrap_or(0) as u8;
        l.settings.max_zoom = z[1].as_u64().unwrap_or(0) as u8;
        l.settings.center_zoom = z[2].as_u64().unwrap_or(0) as u8;
    }
    if let Some(cb) = s["coords_bits"].as_array() {
        for (i, b) in cb.iter().enumerate().take(6) {
            l.settings.coords[i] = f64::from_bits(u64::from_str_radix(b.as_str().unwrap_or("0"), 16).unwrap_or(0));
        }
    }
    l.settings.tile_compression = comp_from_name(s["tile_compression"].as_str().unwrap_or("none"));
    l.settings.tile_type = TILE_TYPES.into_iter().find(|t| format!("{t:?}") == s["tile_type"].as_str().unwrap_or("")).unwrap_or(pmtiles2::TileType::Png);
    l
}

pub struct Corpus {
    pub family: &'static str,
    pub items: Vec<Logical>,
}

/// the C01 corpus (also consumed by C02/C10/C12/C16)
pub fn corpus(thorough: bool) -> Vec<Corpus> {
    let mut out = Vec::new();
    let nids = if thorough { 7 } else { 5 };
    let mut items = Vec::new();
    for c in COMPS {
        // 5^7 maps with brotli quality 11 would take an hour: brotli stays at 6 ids
        items.extend(small_maps(if c == Compression::Brotli { nids.min(6) } else { nids }, c));
    }
    out.push(Corpus { family: "small-maps", items });
    // the same over id alphabets that sit on varint-width and u32 boundaries (3^6 maps each)
    let mut items = Vec::new();
    for c in COMPS {
        items.extend(maps_over(&IDS_VARINT, 2, c));
        items.extend(maps_over(&IDS_U32, 2, c));
    }
    out.push(Corpus { family: "boundary-id-maps", items });
    let mut items = Vec::new();
    for c in COMPS {
        items.extend(large_maps(c));
    }
    out.push(Corpus { family: "large-contents", items });
    // contents that collide under weak checksums (a dedup key must not be one of those)
    let mut items = Vec::new();
    for c in COMPS {
        for (_, a, b) in collision_pairs() {
            for order in 0..2 {
                let mut l = Logical::new(c);
                let (x, y) = if order == 0 { (&a, &b) } else { (&b, &a) };
                l.tiles.insert(0, x.clone());
                l.tiles.insert(1, y.clone());
                l.tiles.insert(5, x.clone());
                l.tiles.insert(LAST, y.clone());
                items.push(l);
            }
        }
    }
    out.push(Corpus { family: "weak-checksum-collisions", items });
    // metadata x compressions x 3 maps
    let ks = contents4();
    let mut items = Vec::new();
    for c in COMPS {
        for (_, m) in meta_alphabet() {
            for nt in 0..3usize {
                let mut l = Logical::new(c);
                l.meta = m.clone();
                for i in 0..nt {
                    l.tiles.insert(i as u64 * 2, ks[i].clone());
                }
                items.push(l);
            }
        }
        for m in single_float_metas() {
            let mut l = Logical::new(c);
            l.meta = m;
            items.push(l);
        }
    }
    out.push(Corpus { family: "metadata", items });
    // settings x 2 maps (internal none and gzip)
    let mut items = Vec::new();
    for c in [Compression::None, Compression::GZip] {
        for s in settings_alphabet(c) {
            for nt in 0..2usize {
                let mut l = Logical::new(c);
                l.settings = s.clone();
                if nt == 1 {
                    l.tiles.insert(3, ks[2].clone());
                }
                items.push(l);
            }
        }
    }
    out.push(Corpus { family: "settings", items });
    // small full cross product: tiles x metadata x settings do not interact
    let mut items = Vec::new();
    let metas = meta_alphabet();
    for c in COMPS {
        let sets = settings_alphabet(c);
        let floats_idx = metas.iter().position(|m| m.0 == "floats").unwrap();
        for mi in [2usize, floats_idx] {
            for si in [7usize, 40, 95, 110] {
                for nt in [0usize, 3] {
                    let mut l = Logical::new(c);
                    l.meta = metas[mi].1.clone();
                    l.settings = sets[si % sets.len()].clone();
                    for i in 0..nt {
                        l.tiles.insert(IDS6[i + 1], ks[i % 2].clone());
                    }
                    items.push(l);
                }
            }
        }
    }
    out.push(Corpus { family: "cross-product", items });
    out
}

pub fn scale_jobs(thorough: bool) -> Vec<(u32, usize, Compression)> {
    let mut jobs = Vec::new();
    for p in 0..3u32 {
        for c in COMPS {
            let ns: Vec<usize> = if thorough {
                vec![1500, 5000, 50_000]
            } else if c == Compression::Brotli {
                vec![1500]
            } else {
                vec![1500, 5000]
            };
            for n in ns {
                jobs.push((p, n, c));
            }
        }
    }
    jobs
}

pub fn run(tier: &str) -> i32 {
    let rep = Report::new("C01", tier, "exploration");
    let thorough = rep.thorough();
    rep.rule("every archive up to 64 KiB is additionally taken through a second generation (open, write again by either API, open): same content; all partial maps of ids {0,1,2,4,5[,LAST]} into contents {41,00,4100,4101}, all 3^6 maps of ids {127,128,129,16383,16384,16385} and of {2^32-2,2^32-1,2^32,2^32+1,2^56,LAST-1} into two contents, x 4 compressions x {sync,async} writer x {sync,async} reader; all 4^3 maps of three 100KiB near-duplicate contents; metadata alphabet (incl. 5KiB string, integer extremes, 140 floats) x 4c x 3 maps; settings alphabet (30 enum pairs, 64 zoom triples, 153 coordinate sextuples) x 2 maps; cross-product control; scale families forcing leaf spill; non-trivial = archives with >=1 tile or non-empty metadata/non-default settings; distinct = distinct written byte images");
    rep.assume("contents above 100 KiB, tile counts above 5*10^4 and metadata outside the alphabet are not explored");
    rep.assume("coordinates: stored value must equal the exact nearest multiple of 1e-7 (either neighbour at an exact tie)");

    let digests: Mutex<BTreeSet<u64>> = Mutex::new(BTreeSet::new());
    for c in corpus(thorough) {
        let fam = c.family;
        let n = c.items.len();
        let results: Vec<(usize, Api, Vec<(String, String)>)> = c
            .items
            .par_iter()
            .enumerate()
            .flat_map_iter(|(i, l)| {
                APIS.into_iter()
                    .map(|w| {
                        let (bad, dg) = round_trip(l, w, fam, &[3, 6, 7, LAST - 1]);
                        if let Some(d) = dg {
                            digests.lock().unwrap().insert(d);
                        }
                        (i, w, bad)
                    })
                    .collect::<Vec<_>>()
            })
            .filter(|x| !x.2.is_empty())
            .collect();
        rep.eval((n * 4) as u64);
        rep.count(&format!("archives_{fam}"), n as u64);
        rep.nontrivial(c.items.iter().filter(|l| !l.tiles.is_empty() || !l.meta.is_empty()).count() as u64);
        for (i, w, bad) in results {
            for (k, d) in bad {
                rep.violation(k, d, case_json(&c.items[i], w, fam));
            }
        }
        rep.sample(0, || c.items[n / 2].brief_json());
    }

    // scale families
    let jobs = scale_jobs(thorough);
    let res: Vec<_> = jobs
        .par_iter()
        .map(|(p, n, c)| {
            let l = scale_family(*p, *n, *c);
            let mut all = Vec::new();
            for w in APIS {
                let (bad, _) = round_trip(&l, w, "scale", &[]);
                all.extend(bad.into_iter().map(|b| (w, b)));
            }
            (*p, *n, *c, all)
        })
        .collect();
    rep.eval((jobs.len() * 4) as u64);
    rep.nontrivial(jobs.len() as u64);
    rep.count("archives_scale", jobs.len() as u64);
    for (p, n, c, all) in res {
        for (w, (k, d)) in all.into_iter().take(6) {
            rep.violation(k, d, json!({"kind":"scale","pattern":p,"n":n,"comp":cname(c),"writer":w.name()}));
        }
    }
    rep.count("distinct_written_images", digests.lock().unwrap().len() as u64);
    rep.force_sample(json!({"kind":"scale","pattern":PATTERN_NAMES[1],"n":1500,"comp":"gzip"}));
    rep.finish()
}

pub fn replay(case: &Value) -> Vec<String> {
    let w = if case["writer"].as_str() == Some("async") { Api::Async } else { Api::Sync };
    let l = match case["kind"].as_str() {
        Some("scale") => scale_family(case["pattern"].as_u64().unwrap_or(0) as u32, case["n"].as_u64().unwrap_or(0) as usize, comp_from_name(case["comp"].as_str().unwrap_or("none"))),
        _ => logical_from_json(&case["archive"]),
    };
    round_trip(&l, w, "replay", &[3, 6, 7, LAST - 1]).0.into_iter().map(|(k, d)| format!("{k}: {d}")).collect()
}

//! C13 - results do not depend on how the stream fragments or delays I/O.
//! Engine E3: every stream call is a choice point; all executions with at most `bound`
//! deviations (short transfer of a chosen size, Pending once or twice) are run to completion;
//! for tiny objects every transfer size at every call (all compositions); plus uniform schedules.
use super::scen::*;
use super::util::*;
use crate::common::{block_on, catch, cname};
use crate::engine::sched::{Dev, Exec, Explorer};
use crate::env::{Chooser, DefaultChooser, Handle, Kind, Script, Uniform};
use crate::report::Report;
use crate::spec::dir::SEntry;
use pmtiles2::{Compression, Directory};
use rayon::prelude::*;
use serde_json::{json, Value};
use std::sync::{Arc, Mutex};

pub fn run_scripted(sc: &Scenario, dev: &Dev, all_sizes: bool) -> Exec<Outcome> {
    run_scripted_p(sc, dev, all_sizes, true)
}
pub fn run_scripted_p(sc: &Scenario, dev: &Dev, all_sizes: bool, pending: bool) -> Exec<Outcome> {
    let alts = Arc::new(Mutex::new(Vec::new()));
    let script = Script { deviations: dev.clone(), all_sizes, pending, alts: alts.clone() };
    let (outcome, h) = (sc.run)(Box::new(script));
    let sig = h.log().iter().map(|o| (o.kind, o.req)).collect();
    let mut a = alts.lock().unwrap().clone();
    a.truncate(h.calls());
    Exec { outcome, alts: a, sig }
}

pub fn judge(role: Role) -> impl Fn(&Outcome, &Outcome) -> Option<String> + Sync {
    move |base: &Outcome, o: &Outcome| {
        // an error on both sides is agreement (error texts are not part of the contract)
        if o.result != base.result && !(o.result.is_err() && base.result.is_err() && !o.is_panic() && !base.is_panic()) {
            let show = |r: &Result<String, String>| match r {
                Ok(s) => format!("Ok({})", s.chars().take(100).collect::<String>()),
                Err(e) => format!("Err({e})"),
            };
            return Some(format!("result {} differs from the in-memory result {}", show(&o.result), show(&base.result)));
        }
        if o.parts != base.parts {
            let d = o.parts.iter().zip(base.parts.iter()).find(|(a, b)| a != b).map(|(a, b)| format!("{}: {:?} vs in-memory {:?}", a.0, a.1.as_ref().map(|s| s.chars().take(60).collect::<String>()), b.1.as_ref().map(|s| s.chars().take(60).collect::<String>()))).unwrap_or_else(|| "different number of calls".into());
            return Some(format!("session differs from the in-memory session at {d}"));
        }
        if role == Role::Writer {
            if o.image != base.image {
                let i = o.image.iter().zip(base.image.iter()).position(|(a, b)| a != b).unwrap_or(o.image.len().min(base.image.len()));
                return Some(format!("output differs from the unfragmented output at byte {i} (lengths {} vs {})", o.image.len(), base.image.len()));
            }
            if o.final_pos != base.final_pos {
                return Some(format!("final stream position {} differs from {}", o.final_pos, base.final_pos));
            }
        }
        None
    }
}

/// tiny scenarios for the all-compositions mode: directories whose stream image is at most `limit` bytes
fn tiny_scenarios(limit: usize) -> Vec<(Scenario, usize)> {
    let mut v: Vec<(Scenario, usize)> = Vec::new();
    let dirs: [Vec<SEntry>; 3] = [vec![], vec![SEntry::new(3, 5, 200, 1)], vec![SEntry::new(300, 5, 200, 1), SEntry::new(70_000, 205, 16_384, 2)]];
    for (di, es) in dirs.iter().enumerate() {
        let plain = crate::spec::dir::encode(es);
        for c in [Compression::None, Compression::GZip, Compression::ZStd, Compression::Brotli] {
            let bytes = crate::spec::codec::compress(crate::common::comp_code(c), &plain);
            // size of what the library itself writes decides for the writer scenarios
            let wlen = dir_write_sync(es, c).ok().map(|b| b.len()).unwrap_or(usize::MAX);
            let n = cname(c);
            if bytes.len() <= limit {
                let b = bytes.clone();
                v.push((Scenario { name: format!("tiny-dir{di}-read/{n}/sync"), is_async: false, role: Role::Reader, heavy: false, faults: false, run: Box::new(move |ch| {
                    let len = b.len() as u64;
                    let h = Handle::new(b.clone(), ch);
                    let r = catch(|| Directory::from_reader(&mut h.sync(), len, c));
                    fin(h, r)
                }) }, bytes.len()));
                let b = bytes.clone();
                v.push((Scenario { name: format!("tiny-dir{di}-read/{n}/async"), is_async: true, role: Role::Reader, heavy: false, faults: false, run: Box::new(move |ch| {
                    let len = b.len() as u64;
                    let h = Handle::new(b.clone(), ch);
                    let r = catch(|| block_on(Directory::from_async_reader(&mut h.asyn(), len, c)));
                    fin(h, r)
                }) }, bytes.len()));
            }
            if wlen <= limit {
                let e2 = es.clone();
                v.push((Scenario { name: format!("tiny-dir{di}-write/{n}/sync"), is_async: false, role: Role::Writer, heavy: false, faults: false, run: Box::new(move |ch| {
                    let h = Handle::new(Vec::new(), ch);
                    let r = catch(|| to_lib_dir(&e2).to_writer(&mut h.sync(), c));
                    fin(h, r)
                }) }, wlen));
                let e2 = es.clone();
                v.push((Scenario { name: format!("tiny-dir{di}-write/{n}/async"), is_async: true, role: Role::Writer, heavy: false, faults: false, run: Box::new(move |ch| {
                    let h = Handle::new(Vec::new(), ch);
                    let r = catch(|| block_on(to_lib_dir(&e2).to_async_writer(&mut h.asyn(), c)));
                    fin(h, r)
                }) }, wlen));
            }
        }
    }
    v
}

fn fin<T: std::fmt::Debug>(h: Handle, r: Result<std::io::Result<T>, String>) -> (Outcome, Handle) {
    let result = match r {
        Ok(Ok(v)) => Ok(format!("{v:?}")),
        Ok(Err(e)) => Err(e.to_string()),
        Err(p) => Err(format!("PANIC {p}")),
    };
    (Outcome { result, image: h.data(), final_pos: h.pos(), parts: Vec::new() }, h)
}

/// estimated number of executions with at most b deviations among `a` alternatives
fn est(a: f64, b: usize) -> f64 {
    let mut total = 1.0;
    let mut term = 1.0;
    for k in 1..=b {
        term *= (a - (k as f64 - 1.0)).max(0.0) / k as f64;
        total += term;
    }
    total
}

pub fn dev_json(sc: &str, dev: &Dev, all_sizes: bool) -> Value {
    json!({"kind":"schedule","scenario":sc,"all_sizes":all_sizes,"deviations":dev.iter().map(|(i,a)| json!([i,a])).collect::<Vec<_>>()})
}

pub fn run(tier: &str) -> i32 {
    let rep = Report::new("C13", tier, "model_checking");
    let thorough = rep.thorough();
    let bound = if thorough { 4 } else { 3 };
    rep.rule(&format!("stateless exploration of I/O schedules on the real code: every call on the controlled stream (read/write/seek/flush and their poll_* twins, poll_close) is a choice point; default = complete transfer/Ready; deviations = short transfer of 1, len/2 or len-1 bytes, or Pending once/twice (async). (a) iterative bounding: all executions with <= b deviations, b the largest value <= {bound} whose execution count fits the budget (>= 1 even for the 7.7k-call leaf-spill writers; see scenarios_explored_to_bound_*); (b) tiny directories: every transfer size at every call with unbounded deviations (all compositions); (c) uniform schedules 'every call moves <= c bytes' for c=1..{} with and without 'every poll Pending first'. (d) complete and cut-short archives opened through from_bytes and through sync/async streams (whole, 3-byte, 7-byte + Pending transfers): same outcome. Oracle: result and (for writers) stream image and final position identical to the 0-deviation execution, which is the in-memory result. non-trivial = executions with >= 1 deviation", if thorough { 32 } else { 9 }));
    rep.assume("controlled stream: seekable in-memory device, reads/writes may be short (>=1 byte) or pending; it stays writable after poll_close (the library closes the shared output after each compressed section); Interrupted/WouldBlock errors are not short transfers and are not explored");
    // the 17 MiB-tile scenarios exist for the fault enumeration; byte-wise schedules over them would need 10^7 calls each
    let scs: Vec<Scenario> = scenarios(true).into_iter().filter(|s| !s.name.contains("17MiB")).collect();
    use std::sync::atomic::{AtomicU64, Ordering};
    let total_exec_a = AtomicU64::new(0);
    let total_points_a = AtomicU64::new(0);
    let writes_after_close_a = AtomicU64::new(0);
    // scenarios are explored in parallel, and each exploration is parallel inside (work stealing)
    scs.par_iter().for_each(|sc| {
        let mut total_exec = 0u64;
        let mut total_points = 0u64;
        let mut writes_after_close = 0u64;
        let runf = |d: &Dev| run_scripted(sc, d, false);
        let j = judge(sc.role);
        // baseline must succeed
        let (base, h) = (sc.run)(Box::new(DefaultChooser));
        // iterative bounding: the largest bound <= `bound` whose estimated execution count fits the budget
        let a0 = run_scripted(sc, &vec![], false).alts.iter().map(|a| *a as f64).sum::<f64>();
        // execution budget per scenario (deterministic): expensive scenarios get a smaller one
        let budget = if sc.heavy && !sc.name.contains("none") {
            if thorough { 2.0e5 } else { 5.0e3 }
        } else if sc.heavy {
            if thorough { 1.0e6 } else { 2.5e4 }
        } else if sc.name.contains("brotli") {
            if thorough { 1.0e6 } else { 2.0e4 }
        } else if sc.name.starts_with("session/") {
            // sessions repeat what the single-call scenarios already explore to bound 3
            if thorough { 1.0e6 } else { 6.0e4 }
        } else if thorough {
            4.0e6
        } else {
            2.5e5
        };
        let mut b = 1usize;
        while b < bound && est(a0, b + 1) <= budget {
            b += 1;
        }
        let ex = Explorer { run: &runf, judge: &j, bound: b, cap: if thorough { 12_000_000 } else { 1_000_000 } };
        rep.count(&format!("scenarios_explored_to_bound_{b}"), 1);
        writes_after_close += h.ops_after_close();
        if base.result.is_err() && !sc.name.contains("padded") {
            rep.violation(format!("baseline-fails/{}", sc.name), format!("scenario fails on an unfragmented stream: {:?}", base.result), dev_json(&sc.name, &vec![], false));
            return;
        }
        let t0 = std::time::Instant::now();
        let st = ex.explore();
        if std::env::var("VERIF_VERBOSE").is_ok() {
            println!("  {:<48} calls={:<5} alts={:<5} execs={:<8} {:.2}s", sc.name, st.calls_default, st.alternatives_default, st.executions, t0.elapsed().as_secs_f64());
        }
        total_exec += st.executions;
        total_points += st.calls_executed;
        for d in st.sample_schedules.iter().take(1) {
            if sc.name.contains("gzip") && rep.get_count("schedule_samples") < 4 {
                rep.count("schedule_samples", 1);
                rep.force_sample(json!({"scenario":sc.name,"schedule":"deviations as (call index, alternative#)","deviations":d,"alternatives_at_call":"1..k = short transfer sizes (1, len/2, len-1), then Pending once, Pending twice (async)"}));
            }
        }
        rep.eval(st.executions);
        rep.nontrivial(st.executions.saturating_sub(1));
        rep.count("scenarios", 1);
        if st.capped {
            rep.not_exhaustive(&format!("execution cap reached in scenario {}", sc.name));
            rep.count("scenarios_capped", 1);
        }
        for m in st.machinery_errors.iter().take(3) {
            println!("MACHINERY: {} in scenario {}", m, sc.name);
            rep.count("machinery_errors", 1);
        }
        for (dev, msg) in st.failures.iter().take(10) {
            rep.violation(format!("schedule/{}", sc.name), format!("{msg} under deviations {dev:?}"), dev_json(&sc.name, dev, false));
        }
        rep.sample(st.executions, || json!({"scenario":sc.name,"calls":st.calls_default,"choice_points":st.choice_points_default,"alternatives":st.alternatives_default,"executions":st.executions,"bound":b}));
        if sc.name.contains("archive-write/gzip") || sc.name.contains("dir-read/none/sync") || sc.heavy {
            rep.force_sample(json!({"scenario":sc.name,"calls":st.calls_default,"choice_points":st.choice_points_default,"alternatives":st.alternatives_default,"executions":st.executions,"bound":b}));
        }
        // (c) uniform schedules
        let cmax = if thorough { 32 } else { 9 };
        let mut unis: Vec<(usize, u32)> = Vec::new();
        for c in 1..=cmax {
            unis.push((c, 0));
            if sc.is_async {
                unis.push((c, 1));
            }
        }
        if sc.is_async {
            unis.push((usize::MAX, 1));
            unis.push((usize::MAX, 2));
        }
        if sc.heavy {
            unis.retain(|(c, _)| *c == 1 || *c == 7 || *c == usize::MAX);
        }
        let jr = judge(sc.role);
        let fails: Vec<((usize, u32), String)> = unis
            .par_iter()
            .filter_map(|(c, p)| {
                let (o, _) = (sc.run)(Box::new(Uniform { max: *c, pending_each: *p }));
                jr(&base, &o).map(|m| ((*c, *p), m))
            })
            .collect();
        rep.eval(unis.len() as u64);
        rep.nontrivial(unis.len() as u64);
        rep.count("uniform_schedule_executions", unis.len() as u64);
        total_exec += unis.len() as u64;
        for ((c, p), m) in fails {
            rep.violation(format!("uniform/{}", sc.name), format!("{m} when every call moves <= {c} bytes, pending_each={p}"), json!({"kind":"uniform","scenario":sc.name,"max":c.min(1 << 40),"pending_each":p}));
        }
        total_exec_a.fetch_add(total_exec, Ordering::Relaxed);
        total_points_a.fetch_add(total_points, Ordering::Relaxed);
        writes_after_close_a.fetch_add(writes_after_close, Ordering::Relaxed);
    });
    let mut total_exec = total_exec_a.load(Ordering::Relaxed);
    let total_points = total_points_a.load(Ordering::Relaxed);
    let writes_after_close = writes_after_close_a.load(Ordering::Relaxed);
    let tiny_calls = std::sync::atomic::AtomicU64::new(0);
    // (b) all compositions on tiny directories: every transfer size at every call, unbounded deviations
    for (sc, image_len) in tiny_scenarios(if thorough { 21 } else { 17 }).iter() {
        let runf = |d: &Dev| run_scripted_p(sc, d, true, false);
        let j = judge(sc.role);
        let ex = Explorer { run: &runf, judge: &j, bound: usize::MAX, cap: if thorough { 8_000_000 } else { 600_000 } };
        let st = ex.explore();
        tiny_calls.fetch_add(st.calls_executed, std::sync::atomic::Ordering::Relaxed);
        // and, for async, sizes + Pending with a deviation bound
        if sc.is_async {
            let runp = |d: &Dev| run_scripted_p(sc, d, true, true);
            let exp = Explorer { run: &runp, judge: &j, bound: 3, cap: if thorough { 4_000_000 } else { 300_000 } };
            let sp = exp.explore();
            total_exec += sp.executions;
            rep.eval(sp.executions);
            rep.nontrivial(sp.executions.saturating_sub(1));
            rep.count("tiny_pending_executions", sp.executions);
            if sp.capped {
                rep.not_exhaustive(&format!("execution cap reached in tiny sizes+pending scenario {}", sc.name));
            }
            for (dev, msg) in sp.failures.iter().take(10) {
                rep.violation(format!("compositions-pending/{}", sc.name), format!("{msg} under deviations {dev:?}"), json!({"kind":"schedule","scenario":sc.name,"all_sizes":true,"pending":true,"deviations":dev.iter().map(|(i,a)| json!([i,a])).collect::<Vec<_>>()}));
            }
        }
        let _ = image_len;
        total_exec += st.executions;
        rep.eval(st.executions);
        rep.nontrivial(st.executions.saturating_sub(1));
        rep.count("tiny_scenarios_all_compositions", 1);
        rep.count("tiny_executions", st.executions);
        if st.capped {
            rep.count("tiny_scenarios_capped", 1);
            rep.not_exhaustive(&format!("execution cap reached in all-compositions scenario {}", sc.name));
        }
        for (dev, msg) in st.failures.iter().take(10) {
            rep.violation(format!("compositions/{}", sc.name), format!("{msg} under deviations {dev:?}"), dev_json(&sc.name, dev, true));
        }
        rep.force_sample(json!({"scenario":sc.name,"mode":"all compositions","image_bytes":image_len,"calls":st.calls_default,"alternatives":st.alternatives_default,"executions":st.executions,"capped":st.capped}));
    }
    // ---- (d) the in-memory entry points (`from_bytes`) against the stream entry points on the same bytes - complete
    // archives and archives cut short (a download that stopped inside the tile data, inside the directories, one byte
    // before the end): what opens from memory opens from any stream with the same content, what is refused from
    // memory is refused from a stream (error texts are not compared)
    {
        let (n, bad) = memory_vs_stream();
        rep.eval(n);
        rep.count("memory_vs_stream_opens", n);
        for (k, d, c) in bad {
            rep.violation(k, d, c);
        }
    }
    rep.set("states", json!(total_exec));
    rep.set("transitions", json!((total_points + tiny_calls.load(std::sync::atomic::Ordering::Relaxed)).max(1)));
    rep.set("transitions_meaning", json!("stream calls executed over all explored schedules"));
    rep.set("traces_validated_against_impl", json!(total_exec));
    rep.set("schedules_explored", json!(total_exec));
    rep.set("writes_after_poll_close_in_default_runs", json!(writes_after_close));
    if rep.get_count("machinery_errors") > 0 {
        println!("MACHINERY: replay divergence detected - results are not a verdict");
        return 2;
    }
    rep.finish()
}

/// (d) complete and cut-short archives through the in-memory entry point and through streams: (opens run, violations)
pub fn memory_vs_stream() -> (u64, Vec<(String, String, Value)>) {
    use crate::model::{view_async, view_sync, View};
    use pmtiles2::PMTiles;
    let mut out = Vec::new();
    let norm = |r: Result<View, String>| -> Result<View, String> {
        match r {
            Ok(mut v) => {
                for t in v.tiles.values_mut() {
                    if t.is_err() {
                        *t = Err("error".into());
                    }
                }
                Ok(v)
            }
            Err(e) if e.starts_with("PANIC") => Err(e),
            Err(_) => Err("error".into()),
        }
    };
    let mut subjects: Vec<(String, Vec<u8>, Vec<u64>)> = Vec::new();
    for c in crate::common::COMPS {
        let l = small_logical(c);
        let b = crate::model::write_lib(&l, crate::model::Api::Sync).expect("HARNESS: small archive");
        subjects.push((format!("lib-small/{}", cname(c)), b, vec![0, 1, 5, 6]));
        let f = super::foreign::build(&foreign_leaf_spec(crate::common::comp_code(c)));
        let ids: Vec<u64> = f.expected.keys().copied().chain([999]).collect();
        subjects.push((format!("foreign-leaves/{}", cname(c)), f.bytes, ids));
    }
    let mut n = 0u64;
    for (name, bytes, probes) in subjects.iter() {
        let len = bytes.len();
        for cut in [0usize, 1, 2, len / 4, len / 2, len - 128, len - 127] {
            if cut >= len {
                continue;
            }
            let b = &bytes[..len - cut];
            let open_s = |ch: Box<dyn Chooser>| catch(|| PMTiles::from_reader(Handle::new(b.to_vec(), ch).sync()).map(|mut pm| view_sync(&mut pm, probes)).map_err(|e| e.to_string())).unwrap_or_else(|p| Err(format!("PANIC {p}")));
            let mem = norm(catch(|| PMTiles::from_bytes(b).map(|mut pm| view_sync(&mut pm, probes)).map_err(|e| e.to_string())).unwrap_or_else(|p| Err(format!("PANIC {p}"))));
            let variants: Vec<(&str, Result<View, String>)> = vec![
                ("sync stream with whole reads", open_s(Box::new(DefaultChooser))),
                ("sync stream with 3-byte reads", open_s(Box::new(Uniform { max: 3, pending_each: 0 }))),
                (
                    "async stream with 7-byte reads and Pending",
                    catch(|| block_on(PMTiles::from_async_reader(Handle::new(b.to_vec(), Box::new(Uniform { max: 7, pending_each: 1 })).asyn())).map(|mut pm| view_async(&mut pm, probes)).map_err(|e| e.to_string())).unwrap_or_else(|p| Err(format!("PANIC {p}"))),
                ),
            ];
            for (vn, r) in variants {
                n += 1;
                let r = norm(r);
                if r != mem {
                    let show = |x: &Result<View, String>| match x {
                        Ok(v) => format!("Ok({} tiles)", v.num_tiles),
                        Err(e) => format!("Err({e})"),
                    };
                    out.push((
                        format!("memory-vs-stream/{}", name.split('/').next().unwrap_or("x")),
                        format!("[{name}, last {cut} bytes missing] from_bytes gives {} but the {vn} gives {}", show(&mem), show(&r)),
                        json!({"kind":"memory-vs-stream","subject":name,"cut":cut,"variant":vn}),
                    ));
                }
            }
        }
    }
    (n, out)
}

pub fn replay(case: &Value) -> Vec<String> {
    if case["kind"].as_str() == Some("memory-vs-stream") {
        return memory_vs_stream().1.into_iter().filter(|v| v.2["subject"] == case["subject"] && v.2["cut"] == case["cut"]).map(|v| format!("{}: {}", v.0, v.1)).collect();
    }
    let name = case["scenario"].as_str().unwrap_or("");
    let mut all = scenarios(true);
    all.extend(tiny_scenarios(21).into_iter().map(|x| x.0));
    let Some(sc) = all.iter().find(|s| s.name == name) else { return vec![format!("unknown scenario {name}")] };
    let (base, _) = (sc.run)(Box::new(DefaultChooser));
    let o = if case["kind"].as_str() == Some("uniform") {
        let max = case["max"].as_u64().unwrap_or(1) as usize;
        (sc.run)(Box::new(Uniform { max, pending_each: case["pending_each"].as_u64().unwrap_or(0) as u32 })).0
    } else {
        let dev: Dev = case["deviations"].as_array().map(|a| a.iter().map(|x| (x[0].as_u64().unwrap_or(0) as usize, x[1].as_u64().unwrap_or(1) as usize)).collect()).unwrap_or_default();
        let all_sizes = case["all_sizes"].as_bool().unwrap_or(false);
        run_scripted_p(sc, &dev, all_sizes, case["pending"].as_bool().unwrap_or(!all_sizes)).outcome
    };
    judge(sc.role)(&base, &o).into_iter().collect()
}

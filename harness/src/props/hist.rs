//! Engine E2: explicit-state breadth-first search over edit histories of the real `PMTiles`
//! object. A state is the history reaching it (objects are rebuilt by replay: `to_writer`
//! consumes the object and `PMTiles` is not `Clone`); states are merged on a canonical key read
//! through the `verif` hook (sorted contents of the three internal maps + digest of the backing
//! bytes + API flavour). Used by C04 (map semantics), C10 (retention) and C19 (rejected adds).

use crate::common::{block_on, catch, fnv};
use crate::model::Api;
use crate::spec::archive::{encode_foreign, Layout, Node};
use crate::spec::dir::SEntry;
use crate::spec::header::SHeader;
use pmtiles2::{Compression, PMTiles, TileType, VerifSnapshot};
use rayon::prelude::*;
use serde_json::{json, Value};
use std::collections::{BTreeMap, HashMap};

pub type Model = BTreeMap<u64, Vec<u8>>;

#[derive(Debug, Clone, PartialEq, Eq, Hash)]
pub enum Op {
    Add(u64, usize),
    Remove(u64),
    /// save with the object's own writer flavour, reopen with the given reader flavour
    SaveReopen(Api),
}

impl Op {
    pub fn to_json(&self, contents: &[Vec<u8>]) -> Value {
        match self {
            Op::Add(i, c) => json!({"op":"add","id":i,"content":crate::report::hex(&contents[*c]),"c":c}),
            Op::Remove(i) => json!({"op":"remove","id":i}),
            Op::SaveReopen(a) => json!({"op":"save+reopen","reader":a.name()}),
        }
    }
    pub fn from_json(v: &Value) -> Option<Op> {
        match v["op"].as_str()? {
            "add" => Some(Op::Add(v["id"].as_u64()?, v["c"].as_u64()? as usize)),
            "remove" => Some(Op::Remove(v["id"].as_u64()?)),
            "save+reopen" => Some(Op::SaveReopen(if v["reader"].as_str() == Some("async") { Api::Async } else { Api::Sync })),
            _ => None,
        }
    }
}

pub enum Obj {
    S(PMTiles<std::io::Cursor<Vec<u8>>>),
    A(PMTiles<futures::io::Cursor<Vec<u8>>>),
}

pub struct Live {
    pub obj: Obj,
    /// digest of the bytes the object was opened from (0 = none)
    pub backing: u64,
}

impl Live {
    pub fn flavour(&self) -> Api {
        match self.obj {
            Obj::S(_) => Api::Sync,
            Obj::A(_) => Api::Async,
        }
    }
    pub fn snapshot(&self) -> VerifSnapshot {
        match &self.obj {
            Obj::S(p) => p.verif_snapshot(),
            Obj::A(p) => p.verif_snapshot(),
        }
    }
    pub fn add(&mut self, id: u64, data: Vec<u8>) -> std::io::Result<()> {
        match &mut self.obj {
            Obj::S(p) => p.add_tile(id, data),
            Obj::A(p) => p.add_tile(id, data),
        }
    }
    pub fn add_slice(&mut self, id: u64, data: &[u8]) -> std::io::Result<()> {
        match &mut self.obj {
            Obj::S(p) => p.add_tile(id, data),
            Obj::A(p) => p.add_tile(id, data),
        }
    }
    pub fn add_string(&mut self, id: u64, data: String) -> std::io::Result<()> {
        match &mut self.obj {
            Obj::S(p) => p.add_tile(id, data),
            Obj::A(p) => p.add_tile(id, data),
        }
    }
    pub fn remove(&mut self, id: u64) {
        match &mut self.obj {
            Obj::S(p) => p.remove_tile(id),
            Obj::A(p) => p.remove_tile(id),
        }
    }
    pub fn get(&mut self, id: u64) -> Result<Option<Vec<u8>>, String> {
        match &mut self.obj {
            Obj::S(p) => p.get_tile_by_id(id).map_err(|e| e.to_string()),
            Obj::A(p) => block_on(p.get_tile_by_id_async(id)).map_err(|e| e.to_string()),
        }
    }
    pub fn get_xyz(&mut self, x: u64, y: u64, z: u8) -> Result<Option<Vec<u8>>, String> {
        match &mut self.obj {
            Obj::S(p) => p.get_tile(x, y, z).map_err(|e| e.to_string()),
            Obj::A(p) => block_on(p.get_tile_async(x, y, z)).map_err(|e| e.to_string()),
        }
    }
    pub fn ids_sorted(&self) -> Vec<u64> {
        let mut v: Vec<u64> = match &self.obj {
            Obj::S(p) => p.tile_ids().into_iter().copied().collect(),
            Obj::A(p) => p.tile_ids().into_iter().copied().collect(),
        };
        v.sort_unstable();
        v
    }
    pub fn ids_raw_len(&self) -> usize {
        match &self.obj {
            Obj::S(p) => p.tile_ids().len(),
            Obj::A(p) => p.tile_ids().len(),
        }
    }
    pub fn num_tiles(&self) -> usize {
        match &self.obj {
            Obj::S(p) => p.num_tiles(),
            Obj::A(p) => p.num_tiles(),
        }
    }
    /// write with own flavour; returns the bytes
    pub fn save(self) -> Result<Vec<u8>, String> {
        match self.obj {
            Obj::S(p) => {
                let mut out = std::io::Cursor::new(Vec::new());
                p.to_writer(&mut out).map_err(|e| e.to_string())?;
                Ok(out.into_inner())
            }
            Obj::A(p) => {
                let mut out = futures::io::Cursor::new(Vec::new());
                block_on(p.to_async_writer(&mut out)).map_err(|e| e.to_string())?;
                Ok(out.into_inner())
            }
        }
    }
    pub fn open(bytes: Vec<u8>, api: Api) -> Result<Live, String> {
        let backing = fnv(&bytes) | 1;
        match api {
            Api::Sync => PMTiles::from_reader(std::io::Cursor::new(bytes)).map(|p| Live { obj: Obj::S(p), backing }).map_err(|e| e.to_string()),
            Api::Async => block_on(PMTiles::from_async_reader(futures::io::Cursor::new(bytes))).map(|p| Live { obj: Obj::A(p), backing }).map_err(|e| e.to_string()),
        }
    }
    pub fn open_partial(bytes: Vec<u8>, api: Api, lo: u64, hi: u64) -> Result<Live, String> {
        // the range is part of the identity of the backing (different ranges bind different tiles)
        let backing = (fnv(&bytes) ^ lo.wrapping_mul(0x9E37_79B9_7F4A_7C15) ^ hi.rotate_left(17)) | 1;
        match api {
            Api::Sync => PMTiles::from_reader_partially(std::io::Cursor::new(bytes), lo..=hi).map(|p| Live { obj: Obj::S(p), backing }).map_err(|e| e.to_string()),
            Api::Async => block_on(PMTiles::from_async_reader_partially(futures::io::Cursor::new(bytes), lo..=hi)).map(|p| Live { obj: Obj::A(p), backing }).map_err(|e| e.to_string()),
        }
    }
    pub fn fresh(api: Api, internal: Compression) -> Live {
        match api {
            Api::Sync => {
                let mut p = PMTiles::<std::io::Cursor<Vec<u8>>>::default();
                p.tile_type = TileType::Png;
                p.tile_compression = Compression::None;
                p.internal_compression = internal;
                Live { obj: Obj::S(p), backing: 0 }
            }
            Api::Async => {
                let mut p = PMTiles::<futures::io::Cursor<Vec<u8>>>::default();
                p.tile_type = TileType::Png;
                p.tile_compression = Compression::None;
                p.internal_compression = internal;
                Live { obj: Obj::A(p), backing: 0 }
            }
        }
    }
}

#[derive(Clone)]
pub enum Init {
    Fresh(Api, Compression),
    /// foreign archive bytes, reader flavour, the content it addresses
    Foreign(usize, Api),
    /// foreign archive opened through the range filter (lo..=hi): only those tiles exist afterwards
    ForeignPartial(usize, Api, u64, u64),
}

pub struct Alphabet {
    pub ids: Vec<u64>,
    pub contents: Vec<Vec<u8>>,
    pub outsider: u64,
    pub foreign: Vec<(Vec<u8>, Model)>,
    pub inits: Vec<Init>,
    pub thorough: bool,
    /// 0 = unrelated contents AA/BB(/A); 1 = related contents A, A+NUL(, NUL): proper prefix / suffix, concatenation,
    /// trailing zero byte; 2 = the three related contents over four ids from two fresh objects, depth-bounded;
    /// 3 = two unrelated contents over the four adjacent ids 0..=3 from fresh objects (quick: depth 6; thorough: fix-point)
    pub variant: u8,
    /// histories longer than this are not expanded (None = to fix-point)
    pub max_depth: Option<usize>,
}

impl Alphabet {
    pub fn new(thorough: bool) -> Self {
        Self::variant(thorough, 0)
    }
    pub fn from_case(case: &Value) -> Self {
        Self::variant(case["thorough"].as_bool().unwrap_or(false), case["variant"].as_u64().unwrap_or(0) as u8)
    }
    pub fn variant(thorough: bool, variant: u8) -> Self {
        if variant == 3 {
            // four ADJACENT ids and two unrelated contents from two fresh objects, to fix-point: the only alphabet in
            // which contents can alternate A,B,A,B on consecutive ids (round 8: a run-extension fast path keyed on the
            // content written last, which a deduplicated tile in between leaves stale)
            // quick: one fresh object, all histories of at most 6 operations (A,B,A,B + save is 5); thorough: two, to fix-point
            let mut inits = vec![Init::Fresh(Api::Sync, Compression::None)];
            if thorough {
                inits.push(Init::Fresh(Api::Async, Compression::GZip));
            }
            let max_depth = if thorough { None } else { Some(6) };
            return Self { ids: vec![0, 1, 2, 3], contents: vec![b"AA".to_vec(), b"BB".to_vec()], outsider: 4, foreign: Vec::new(), inits, thorough, variant, max_depth };
        }
        let ids: Vec<u64> = if thorough || variant == 2 { vec![0, 1, 2, 5] } else { vec![0, 1, 2] };
        let (k0, k1, k2): (&[u8], &[u8], &[u8]) = if variant == 0 { (b"AA", b"BB", b"A") } else { (b"A", b"A\0", b"\0") };
        let contents: Vec<Vec<u8>> = if thorough || variant == 2 { vec![k0.to_vec(), k1.to_vec(), k2.to_vec()] } else { vec![k0.to_vec(), k1.to_vec()] };
        if variant == 2 {
            let inits = vec![Init::Fresh(Api::Sync, Compression::None), Init::Fresh(Api::Async, Compression::GZip)];
            return Self { ids, contents, outsider: 3, foreign: Vec::new(), inits, thorough, variant, max_depth: Some(5) };
        }
        let foreign = foreign_archives(k0, k1);
        let mut inits = vec![
            Init::Fresh(Api::Sync, Compression::None),
            Init::Fresh(Api::Async, Compression::None),
            Init::Fresh(Api::Sync, Compression::GZip),
            Init::Fresh(Api::Async, Compression::GZip),
        ];
        if thorough {
            for c in [Compression::Brotli, Compression::ZStd] {
                inits.push(Init::Fresh(Api::Sync, c));
                inits.push(Init::Fresh(Api::Async, c));
            }
        }
        for i in 0..foreign.len() {
            inits.push(Init::Foreign(i, Api::Sync));
            inits.push(Init::Foreign(i, Api::Async));
        }
        // range-filtered opens: a run cut in the middle, and a leaf archive restricted to its tail
        inits.push(Init::ForeignPartial(0, Api::Sync, 0, 1));
        inits.push(Init::ForeignPartial(0, Api::Async, 1, 2));
        inits.push(Init::ForeignPartial(1, Api::Sync, 1, 2));
        inits.push(Init::ForeignPartial(1, Api::Async, 0, 0));
        Self { ids, contents, outsider: 3, foreign, inits, thorough, variant, max_depth: None }
    }
    pub fn ops(&self) -> Vec<Op> {
        let mut v = Vec::new();
        for id in self.ids.iter() {
            for c in 0..self.contents.len() {
                v.push(Op::Add(*id, c));
            }
        }
        for id in self.ids.iter() {
            v.push(Op::Remove(*id));
        }
        v.push(Op::SaveReopen(Api::Sync));
        v.push(Op::SaveReopen(Api::Async));
        v
    }
    pub fn init_json(&self, i: usize) -> Value {
        match &self.inits[i] {
            Init::Fresh(a, c) => json!({"init":"fresh","api":a.name(),"internal":crate::common::cname(*c)}),
            Init::Foreign(k, a) => json!({"init":"foreign","index":k,"api":a.name()}),
            Init::ForeignPartial(k, a, lo, hi) => json!({"init":"foreign-partial","index":k,"api":a.name(),"range":[lo, hi]}),
        }
    }
    pub fn contents_desc(&self) -> Vec<String> {
        self.contents.iter().map(|c| crate::report::hex(c)).collect()
    }
}

/// three foreign archives over the id alphabet {0,1,2} and the first two contents k0, k1 of the alphabet: a run,
/// shared and descending offsets behind a leaf directory, a content stored twice
fn foreign_archives(k0: &[u8], k1: &[u8]) -> Vec<(Vec<u8>, Model)> {
    let mut out = Vec::new();
    let mk = |root: Vec<Node>, data: &[u8], comp: u8, lay: Layout| {
        let f = encode_foreign(&root, data, Some(b"{}"), comp, &lay, SHeader { tile_type: 2, tile_compression: 1, ..SHeader::default() });
        let model: Model = f.expected.iter().map(|(id, (o, l))| (*id, f.bytes[*o as usize..*o as usize + *l as usize].to_vec())).collect();
        (f.bytes, model)
    };
    let (l0, l1) = (k0.len() as u32, k1.len() as u32);
    // F0: one run entry covering ids 0..=2 with content k0
    out.push(mk(vec![Node::Tile(SEntry::new(0, 0, l0, 3))], k0, 1, Layout::default()));
    // F1: root -> leaf; ids 0 and 2 share an offset (k1), id 1 is k0 stored *before* k1 (descending offsets)
    let d1: Vec<u8> = [k0, k1].concat();
    out.push(mk(
        vec![Node::Leaf(0, vec![Node::Tile(SEntry::new(0, u64::from(l0), l1, 1)), Node::Tile(SEntry::new(1, 0, l0, 1)), Node::Tile(SEntry::new(2, u64::from(l0), l1, 1))])],
        &d1,
        2,
        Layout { gap: 3, ..Layout::default() },
    ));
    // F2: id 1 -> k0, id 2 -> k1 taken from its second copy (k1 is stored twice)
    let d2: Vec<u8> = [k0, k1, k1].concat();
    out.push(mk(
        vec![Node::Tile(SEntry::new(1, 0, l0, 1)), Node::Tile(SEntry::new(2, u64::from(l0 + l1), l1, 1))],
        &d2,
        1,
        Layout::default(),
    ));
    out
}

pub fn initial(alpha: &Alphabet, i: usize) -> Result<(Live, Model), String> {
    match &alpha.inits[i] {
        Init::Fresh(a, c) => Ok((Live::fresh(*a, *c), Model::new())),
        Init::Foreign(k, a) => {
            let (bytes, model) = &alpha.foreign[*k];
            Ok((Live::open(bytes.clone(), *a)?, model.clone()))
        }
        Init::ForeignPartial(k, a, lo, hi) => {
            let (bytes, model) = &alpha.foreign[*k];
            let m: Model = model.iter().filter(|(id, _)| **id >= *lo && **id <= *hi).map(|(a, b)| (*a, b.clone())).collect();
            Ok((Live::open_partial(bytes.clone(), *a, *lo, *hi)?, m))
        }
    }
}

pub fn apply(live: Live, model: &mut Model, op: &Op, alpha: &Alphabet) -> Result<Live, String> {
    match op {
        Op::Add(id, c) => {
            let mut live = live;
            live.add(*id, alpha.contents[*c].clone()).map_err(|e| format!("add_tile({id}) refused: {e}"))?;
            model.insert(*id, alpha.contents[*c].clone());
            Ok(live)
        }
        Op::Remove(id) => {
            let mut live = live;
            live.remove(*id);
            model.remove(id);
            Ok(live)
        }
        Op::SaveReopen(reader) => {
            let bytes = live.save().map_err(|e| format!("save failed: {e}"))?;
            Live::open(bytes, *reader).map_err(|e| format!("reopen failed: {e}"))
        }
    }
}

/// everything the public API lets one observe, as a digestable vector
pub fn observe(live: &mut Live, alpha: &Alphabet) -> Vec<(u64, Result<Option<Vec<u8>>, String>)> {
    let mut v = Vec::new();
    for id in alpha.ids.iter().chain(std::iter::once(&alpha.outsider)) {
        v.push((*id, live.get(*id)));
    }
    v
}

pub fn canon_key(live: &Live) -> Vec<u8> {
    let s = live.snapshot();
    let mut k = Vec::with_capacity(128);
    k.push(match live.flavour() {
        Api::Sync => 0u8,
        Api::Async => 1,
    });
    k.extend_from_slice(&live.backing.to_le_bytes());
    k.push(u8::from(s.has_reader));
    for (id, h, ol) in s.tile_by_id.iter() {
        k.extend_from_slice(&id.to_le_bytes());
        match (h, ol) {
            (Some(h), _) => {
                k.push(1);
                k.extend_from_slice(&h.to_le_bytes());
            }
            (_, Some((o, l))) => {
                k.push(2);
                k.extend_from_slice(&o.to_le_bytes());
                k.extend_from_slice(&l.to_le_bytes());
            }
            _ => k.push(3),
        }
    }
    k.push(0xFF);
    for (h, d) in s.data_by_hash.iter() {
        k.extend_from_slice(&h.to_le_bytes());
        k.extend_from_slice(&(d.len() as u32).to_le_bytes());
        k.extend_from_slice(d);
    }
    k.push(0xFE);
    for (h, ids) in s.ids_by_hash.iter() {
        k.extend_from_slice(&h.to_le_bytes());
        k.push(ids.len() as u8);
        for i in ids {
            k.extend_from_slice(&i.to_le_bytes());
        }
    }
    k
}

/// Rebuild the object for `hist` from initial state `init`. With `lookups`, every alphabet id is
/// looked up after every operation (so cursor movements of the backing reader are interleaved).
pub fn build(alpha: &Alphabet, init: usize, hist: &[Op], lookups: bool) -> Result<(Live, Model), String> {
    let r = catch(|| -> Result<(Live, Model), String> {
        let (mut live, mut model) = initial(alpha, init)?;
        for op in hist {
            if lookups {
                let _ = observe(&mut live, alpha);
            }
            live = apply(live, &mut model, op, alpha)?;
        }
        Ok((live, model))
    });
    match r {
        Ok(x) => x,
        Err(p) => Err(format!("PANIC {p}")),
    }
}

pub struct Stats {
    pub states: u64,
    pub transitions: u64,
    pub max_depth: usize,
    pub merged: u64,
    pub distinct_observations: u64,
    /// order-independent digest of the set of canonical state keys (for comparing two explorations)
    pub state_set_digest: u64,
}

pub struct Visit<'a> {
    pub live: &'a mut Live,
    pub model: &'a Model,
    pub init: usize,
    pub hist: &'a [Op],
    pub alpha: &'a Alphabet,
}

/// BFS to fix-point. `check` runs in every reached state (after every transition, both replay
/// modes) and returns complaints; `on_bad(key, detail, case)` records them.
pub fn explore(
    alpha: &Alphabet,
    check: &(dyn Fn(&mut Visit) -> Vec<(String, String)> + Sync),
    on_bad: &(dyn Fn(String, String, Value) + Sync),
    max_states: usize,
) -> (Stats, bool, Vec<Value>) {
    explore_ordered(alpha, check, on_bad, max_states, false)
}

/// `reversed`: transitions are tried in reverse order and every level's frontier is expanded back to front, so
/// that every state is (in general) first reached through a different history than in the default order
pub fn explore_ordered(
    alpha: &Alphabet,
    check: &(dyn Fn(&mut Visit) -> Vec<(String, String)> + Sync),
    on_bad: &(dyn Fn(String, String, Value) + Sync),
    max_states: usize,
    reversed: bool,
) -> (Stats, bool, Vec<Value>) {
    let mut ops = alpha.ops();
    if reversed {
        ops.reverse();
    }
    let mut seen: HashMap<Vec<u8>, u64> = HashMap::new(); // key -> observation digest
    let mut frontier: Vec<(usize, Vec<Op>)> = Vec::new();
    let mut stats = Stats { states: 0, transitions: 0, max_depth: 0, merged: 0, distinct_observations: 0, state_set_digest: 0 };
    let mut samples = Vec::new();
    let case_of = |init: usize, hist: &[Op]| json!({"kind":"history","thorough":alpha.thorough,"variant":alpha.variant,"init":alpha.init_json(init),"init_index":init,"ops":hist.iter().map(|o| o.to_json(&alpha.contents)).collect::<Vec<_>>()});

    // initial states
    for i in 0..alpha.inits.len() {
        match build(alpha, i, &[], false) {
            Ok((mut live, model)) => {
                let key = canon_key(&live);
                for (k, d) in check(&mut Visit { live: &mut live, model: &model, init: i, hist: &[], alpha }) {
                    on_bad(k, d, case_of(i, &[]));
                }
                let od = obs_digest(&observe(&mut live, alpha));
                if seen.insert(key, od).is_none() {
                    stats.states += 1;
                    frontier.push((i, Vec::new()));
                }
            }
            Err(e) => on_bad("initial-state".into(), format!("initial state {i} cannot be built: {e}"), case_of(i, &[])),
        }
    }
    let mut complete = true;
    let mut depth = 0usize;
    while !frontier.is_empty() {
        depth += 1;
        // expand the whole level in parallel; results are merged serially in a deterministic order
        let results: Vec<Vec<(usize, Vec<Op>, Option<(Vec<u8>, u64)>)>> = frontier
            .par_iter()
            .map(|(init, hist)| {
                let mut out = Vec::with_capacity(ops.len());
                for op in ops.iter() {
                    let mut h2 = hist.clone();
                    h2.push(op.clone());
                    let mut keys: Vec<(Vec<u8>, u64)> = Vec::new();
                    for lookups in [false, true] {
                        match build(alpha, *init, &h2, lookups) {
                            Ok((mut live, model)) => {
                                let key = canon_key(&live);
                                for (k, d) in check(&mut Visit { live: &mut live, model: &model, init: *init, hist: &h2, alpha }) {
                                    on_bad(k, d, case_of(*init, &h2));
                                }
                                let od = obs_digest(&observe(&mut live, alpha));
                                keys.push((key, od));
                            }
                            Err(e) => {
                                let kind = if e.starts_with("PANIC") { "transition-panic" } else { "transition-failed" };
                                on_bad(kind.into(), format!("history fails at its last operation: {e}"), case_of(*init, &h2));
                            }
                        }
                    }
                    if keys.len() == 2 && keys[0] != keys[1] {
                        on_bad("lookups-change-state".into(), "interleaving lookups between the operations changed the resulting state or observations".into(), case_of(*init, &h2));
                    }
                    out.push((*init, h2, keys.into_iter().next()));
                }
                out
            })
            .collect();
        let mut next = Vec::new();
        for group in results {
            for (init, h2, k) in group {
                stats.transitions += 1;
                let Some((key, od)) = k else { continue };
                match seen.get(&key) {
                    Some(prev) => {
                        stats.merged += 1;
                        if *prev != od {
                            on_bad("same-state-different-observations".into(), "two histories reach the same internal state but observe different tiles".into(), case_of(init, &h2));
                        }
                    }
                    None => {
                        seen.insert(key, od);
                        stats.states += 1;
                        if samples.len() < 6 && (stats.states % 97 == 5) {
                            samples.push(case_of(init, &h2));
                        }
                        next.push((init, h2));
                    }
                }
            }
        }
        stats.max_depth = depth;
        if alpha.max_depth.is_some_and(|d| depth >= d) {
            break;
        }
        if seen.len() > max_states {
            complete = false;
            break;
        }
        frontier = next;
        if reversed {
            frontier.reverse();
        }
    }
    stats.state_set_digest = seen.keys().fold(0u64, |a, k| a.wrapping_add(fnv(k).wrapping_mul(0x9E37_79B9_7F4A_7C15)));
    let mut ods: Vec<u64> = seen.values().copied().collect();
    ods.sort_unstable();
    ods.dedup();
    stats.distinct_observations = ods.len() as u64;
    (stats, complete, samples)
}

pub fn obs_digest(o: &[(u64, Result<Option<Vec<u8>>, String>)]) -> u64 {
    let mut b = Vec::new();
    for (id, r) in o {
        b.extend_from_slice(&id.to_le_bytes());
        match r {
            Ok(Some(x)) => {
                b.push(1);
                b.extend_from_slice(x);
                b.push(0);
            }
            Ok(None) => b.push(2),
            Err(_) => b.push(3),
        }
    }
    fnv(&b)
}

pub fn hist_from_case(case: &Value) -> (usize, Vec<Op>) {
    let init = case["init_index"].as_u64().unwrap_or(0) as usize;
    let ops = case["ops"].as_array().map(|a| a.iter().filter_map(Op::from_json).collect()).unwrap_or_default();
    (init, ops)
}

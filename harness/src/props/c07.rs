//! C07 - tile ids are the specification's Hilbert ids and convert back exactly; lookups by
//! coordinates that denote no tile never return a tile.
use super::util::*;
use crate::common::{block_on, catch};
use crate::report::Report;
use crate::spec::hilbert;
use pmtiles2::util::{tile_id, zxy};
use pmtiles2::{Compression, PMTiles, TileType};
use rayon::prelude::*;
use serde_json::{json, Value};
use std::collections::BTreeSet;

fn lib_tile_id(z: u8, x: u64, y: u64) -> Result<u64, String> {
    catch(|| tile_id(z, x, y))
}
fn lib_zxy(id: u64) -> Result<Result<(u8, u64, u64), String>, String> {
    catch(|| zxy(id).map_err(|e| e.to_string()))
}

/// forward + inverse at one in-grid point
fn check_point(z: u8, x: u64, y: u64) -> Option<(String, String)> {
    let want = hilbert::zxy_to_id(z, x, y);
    match lib_tile_id(z, x, y) {
        Ok(got) if got == want => {}
        Ok(got) => return Some(("forward".into(), format!("tile_id({z},{x},{y}) = {got}, specification says {want}"))),
        Err(p) => return Some(("forward-panic".into(), format!("tile_id({z},{x},{y}) panics: {p}"))),
    }
    match lib_zxy(want) {
        Ok(Ok(t)) if t == (z, x, y) => None,
        Ok(Ok(t)) => Some(("inverse".into(), format!("zxy({want}) = {t:?}, expected ({z},{x},{y})"))),
        Ok(Err(e)) => Some(("inverse-err".into(), format!("zxy({want}) fails: {e}"))),
        Err(p) => Some(("inverse-panic".into(), format!("zxy({want}) panics: {p}"))),
    }
}

fn check_id(id: u64) -> Option<(String, String)> {
    let want = hilbert::id_to_zxy(id);
    match (want, lib_zxy(id)) {
        (Some(w), Ok(Ok(g))) => {
            if w != g {
                return Some(("inverse".into(), format!("zxy({id}) = {g:?}, specification says {w:?}")));
            }
            match lib_tile_id(g.0, g.1, g.2) {
                Ok(back) if back == id => None,
                Ok(back) => Some(("reencode".into(), format!("tile_id(zxy({id})) = {back}"))),
                Err(p) => Some(("forward-panic".into(), format!("tile_id{g:?} panics: {p}"))),
            }
        }
        (Some(_), Ok(Err(e))) => Some(("inverse-err".into(), format!("zxy({id}) fails for a valid id: {e}"))),
        (None, Ok(Err(_))) => None,
        (None, Ok(Ok(g))) => Some(("inverse-too-large".into(), format!("zxy({id}) = {g:?} although id >= first id of zoom 32"))),
        (_, Err(p)) => Some(("inverse-panic".into(), format!("zxy({id}) panics: {p}"))),
    }
}

fn boundary_coords(z: u8) -> Vec<u64> {
    let n = 1u64 << z;
    let mut v: BTreeSet<u64> = BTreeSet::new();
    for c in [0u64, 1, 2, n / 2 - 1, n / 2, n - 2, n - 1, 0x5555_5555_5555_5555 & (n - 1), 0xAAAA_AAAA_AAAA_AAAA & (n - 1)] {
        if c < n {
            v.insert(c);
        }
    }
    for k in 0..z {
        v.insert(1u64 << k);
        v.insert((1u64 << k) - 1);
    }
    v.into_iter().collect()
}

fn content_for(id: u64) -> Vec<u8> {
    let mut v = b"T".to_vec();
    v.extend_from_slice(&id.to_le_bytes());
    v
}

pub fn run(tier: &str) -> i32 {
    let rep = Report::new("C07", tier, "exploration");
    let thorough = rep.thorough();
    let zmax: u8 = if thorough { 15 } else { 11 };
    rep.rule(&format!("every (z,x,y) with z<={zmax} forward+inverse, every id below the first id of zoom {} inverse+re-encode, adjacency/children clauses on the exhaustive zooms; boundary product points for higher zooms up to 31; ids at every zoom-block edge +-2, 2^63, u64::MAX; lookup clause: out-of-grid (x,y) for z<=31 and all z in 32..=255 against an archive holding every id the implementation maps those probes to; non-trivial = points with z>=1", zmax + 1));
    rep.assume("reference = rotate/flip loop of the PMTiles v3 specification (harness/src/spec/hilbert.rs), cross-checked against the test vectors of the spec");
    rep.assume(&format!("zooms above {zmax} are covered on boundary products only"));
    rep.set("exhaustive_zoom_bound", json!(zmax));

    // ---- exhaustive forward (+inverse) per zoom, rows in parallel
    for z in 0..=zmax {
        let n = 1u64 << z;
        let fails: Vec<(u64, u64, (String, String))> = (0..n)
            .into_par_iter()
            .flat_map_iter(|y| {
                // fast path: whole row inside one catch
                let row_ok = catch(|| {
                    for x in 0..n {
                        let want = hilbert::zxy_to_id(z, x, y);
                        if tile_id(z, x, y) != want {
                            return false;
                        }
                        match zxy(want) {
                            Ok(t) if t == (z, x, y) => {}
                            _ => return false,
                        }
                    }
                    true
                });
                if matches!(row_ok, Ok(true)) {
                    Vec::new()
                } else {
                    (0..n).filter_map(|x| check_point(z, x, y).map(|b| (x, y, b))).take(3).collect::<Vec<_>>()
                }
            })
            .collect();
        rep.eval(n * n);
        if z >= 1 {
            rep.nontrivial(n * n);
        }
        for (x, y, (k, d)) in fails.into_iter().take(20) {
            rep.violation(format!("{k}/z{z}"), d, json!({"kind":"point","z":z,"x":x.to_string(),"y":y.to_string()}));
        }
    }
    rep.count("exhaustive_points", (0..=zmax).map(|z| 1u64 << (2 * u32::from(z))).sum());

    // ---- exhaustive inverse over all ids below base(zmax+1), with adjacency and children clauses
    let top = hilbert::base(zmax + 1);
    let chunk = 1u64 << 16;
    let nchunks = top.div_ceil(chunk);
    let bad: Vec<(u64, (String, String))> = (0..nchunks)
        .into_par_iter()
        .flat_map_iter(|c| {
            let lo = c * chunk;
            let hi = (lo + chunk).min(top);
            let mut out = Vec::new();
            let mut prev: Option<(u8, u64, u64)> = if lo > 0 { lib_zxy(lo - 1).ok().and_then(|r| r.ok()) } else { None };
            for id in lo..hi {
                if let Some(b) = check_id(id) {
                    out.push((id, b));
                    if out.len() > 3 {
                        break;
                    }
                    prev = None;
                    continue;
                }
                let cur = hilbert::id_to_zxy(id).unwrap();
                // zoom blocks are contiguous and ordered: z never decreases, and increases exactly at base(z)
                let zb = if id >= hilbert::base(cur.0) && id < hilbert::base(cur.0 + 1) { true } else { false };
                if !zb {
                    out.push((id, ("zoom-block".into(), format!("id {id} reported at zoom {}", cur.0))));
                }
                if let Some(p) = prev {
                    if p.0 == cur.0 {
                        let dx = p.1.abs_diff(cur.1);
                        let dy = p.2.abs_diff(cur.2);
                        if dx + dy != 1 {
                            out.push((id, ("adjacency".into(), format!("ids {} and {id} are not edge-adjacent: {p:?} {cur:?}", id - 1))));
                        }
                    }
                }
                // children occupy one aligned block of four
                if cur.0 < zmax {
                    let pos = id - hilbert::base(cur.0);
                    let mut kids: Vec<u64> = Vec::new();
                    for (dx, dy) in [(0, 0), (1, 0), (0, 1), (1, 1)] {
                        match lib_tile_id(cur.0 + 1, 2 * cur.1 + dx, 2 * cur.2 + dy) {
                            Ok(k) => kids.push(k - hilbert::base(cur.0 + 1).min(k)),
                            Err(_) => {}
                        }
                    }
                    kids.sort_unstable();
                    if kids != vec![4 * pos, 4 * pos + 1, 4 * pos + 2, 4 * pos + 3] {
                        out.push((id, ("children".into(), format!("children of id {id} sit at positions {kids:?}, expected block starting {}", 4 * pos))));
                    }
                }
                prev = Some(cur);
            }
            out
        })
        .collect();
    rep.eval(top);
    rep.nontrivial(top.saturating_sub(1));
    rep.count("exhaustive_ids", top);
    for (id, (k, d)) in bad.into_iter().take(20) {
        rep.violation(k, d, json!({"kind":"id","id":id.to_string()}));
    }

    // ---- boundary products for the higher zooms
    let mut nb = 0u64;
    for z in (zmax + 1)..=31 {
        let cs = boundary_coords(z);
        let fails: Vec<(u64, u64, (String, String))> = cs
            .par_iter()
            .flat_map_iter(|x| cs.iter().filter_map(|y| check_point(z, *x, *y).map(|b| (*x, *y, b))).collect::<Vec<_>>())
            .collect();
        nb += (cs.len() * cs.len()) as u64;
        for (x, y, (k, d)) in fails.into_iter().take(10) {
            rep.violation(format!("{k}/z{z}"), d, json!({"kind":"point","z":z,"x":x.to_string(),"y":y.to_string()}));
        }
    }
    rep.eval(nb);
    rep.nontrivial(nb);
    rep.count("boundary_points_high_zooms", nb);

    // ---- ids around every zoom-block edge, and far beyond
    let mut ids: BTreeSet<u64> = BTreeSet::new();
    for z in 0..=32u8 {
        let b = hilbert::base(z);
        for d in 0..=2u64 {
            ids.insert(b.saturating_add(d));
            ids.insert(b.saturating_sub(d));
        }
    }
    for v in [1u64 << 62, (1u64 << 62) + 1, 1u64 << 63, (1u64 << 63) - 1, u64::MAX, u64::MAX - 1, hilbert::base(32) + (1 << 40)] {
        ids.insert(v);
    }
    for id in ids.iter() {
        if let Some((k, d)) = check_id(*id) {
            rep.violation(format!("{k}/edge"), d, json!({"kind":"id","id":id.to_string()}));
        }
    }
    rep.eval(ids.len() as u64);
    rep.nontrivial(ids.len() as u64);
    rep.count("edge_ids", ids.len() as u64);
    rep.count("edge_ids_beyond_zoom31", ids.iter().filter(|i| **i >= hilbert::base(32)).count() as u64);

    // ---- call sequences on one thread: a forward conversion with ANY arguments (also zooms >= 32, coordinates
    // outside the grid) must not influence the inverse conversions that follow
    {
        let mut nseq = 0u64;
        let id_list: Vec<u64> = ids.iter().copied().collect();
        for z in (0..=40u8).chain([63, 64, 255]) {
            for (x, y) in [(0u64, 0u64), (1, 0), (3, 5), (u64::MAX, 0), (1 << 31, 1 << 31)] {
                nseq += 1;
                for id in id_list.iter() {
                    // the forward call directly precedes EVERY inverse check (an intervening conversion could repair state)
                    let _ = lib_tile_id(z, x, y);
                    if let Some((k, d)) = check_id(*id) {
                        rep.violation(format!("{k}/after-forward-call"), format!("after tile_id({z},{x},{y}) on the same thread: {d}"), json!({"kind":"sequence","z":z,"x":x.to_string(),"y":y.to_string(),"id":id.to_string()}));
                    }
                }
                // and the other way round: inverse conversions must not influence forward ones
                let _ = lib_zxy(u64::MAX);
                let _ = lib_zxy(hilbert::base(32));
                if z <= 31 {
                    let n = 1u64 << z;
                    if let Some((k, d)) = check_point(z, x % n, y % n) {
                        rep.violation(format!("{k}/after-inverse-call"), d, json!({"kind":"point","z":z,"x":(x % n).to_string(),"y":(y % n).to_string()}));
                    }
                }
            }
        }
        rep.eval(nseq * id_list.len() as u64);
        rep.count("forward_then_inverse_sequences", nseq);
    }

    lookup_clause(&rep);

    rep.force_sample(json!({"kind":"point","z":12,"x":"3423","y":"1763","id":"19078479"}));
    rep.force_sample(json!({"kind":"lookup","z":2,"x":"4","y":"0","note":"x outside the 4x4 grid of zoom 2"}));
    rep.finish()
}

fn lookup_probes() -> Vec<(u8, u64, u64, bool)> {
    // (z, x, y, in_grid)
    let mut v = Vec::new();
    for z in 0..=31u8 {
        let n = 1u64 << z;
        let inside: Vec<u64> = [0u64, 1, n / 2, n - 1].into_iter().filter(|c| *c < n).collect::<BTreeSet<_>>().into_iter().collect();
        let outside: Vec<u64> = [n, n + 1, n + (n / 2), 3 * n, n.wrapping_mul(1 << 20).max(n), (1u64 << 32), (1u64 << 32) + 1, u64::MAX, u64::MAX - 1, 1u64 << 63]
            .into_iter()
            .filter(|c| *c >= n)
            .collect::<BTreeSet<_>>()
            .into_iter()
            .collect();
        for x in inside.iter() {
            for y in inside.iter() {
                v.push((z, *x, *y, true));
            }
            for y in outside.iter() {
                v.push((z, *x, *y, false));
                v.push((z, *y, *x, false));
            }
        }
        for x in outside.iter() {
            for y in outside.iter() {
                v.push((z, *x, *y, false));
            }
        }
    }
    for z in 32..=255u8 {
        for x in [0u64, 1, 1 << 31, u64::MAX] {
            for y in [0u64, 1, 1 << 31, u64::MAX] {
                v.push((z, x, y, false));
            }
        }
    }
    v
}

fn lookup_clause(rep: &Report) {
    let probes = lookup_probes();
    // the archive holds ids 0..=84, every in-grid alias, and every id the implementation maps a probe to
    let mut ids: BTreeSet<u64> = (0..=84).collect();
    for (z, x, y, _) in probes.iter() {
        if *z <= 31 {
            let n = 1u64 << z;
            ids.insert(hilbert::zxy_to_id(*z, x % n, y % n));
        }
        // only valid tile ids can live in a valid archive
        if let Ok(id) = lib_tile_id(*z, *x, *y) {
            if id < hilbert::base(32) {
                ids.insert(id);
            }
        }
    }
    let mut pm = PMTiles::new(TileType::Png, Compression::None);
    pm.internal_compression = Compression::None;
    for id in ids.iter() {
        pm.add_tile(*id, content_for(*id)).unwrap();
    }
    let mut buf = std::io::Cursor::new(Vec::new());
    if let Err(e) = catch(|| pm.to_writer(&mut buf)) {
        rep.violation("lookup/setup", format!("writing the probe archive panicked: {e}"), json!({"kind":"lookup-setup"}));
        return;
    }
    let bytes = buf.into_inner();
    let mut mem = PMTiles::new(TileType::Png, Compression::None);
    for id in ids.iter() {
        mem.add_tile(*id, content_for(*id)).unwrap();
    }
    // the in-memory object additionally holds ids beyond the valid domain (add_tile accepts any u64): a lookup
    // by coordinates that denote no tile must not be answered with one of those either
    for id in [hilbert::base(32), hilbert::base(32) + 1, 1u64 << 63, u64::MAX - 1, u64::MAX] {
        mem.add_tile(id, content_for(id)).unwrap();
    }
    let Ok(Ok(mut opened)) = catch(|| PMTiles::from_bytes(bytes.as_slice())) else {
        rep.violation("lookup/setup", "probe archive does not open", json!({"kind":"lookup-setup"}));
        return;
    };
    let Ok(Ok(mut opened_async)) = catch(|| block_on(PMTiles::from_async_reader(futures::io::Cursor::new(bytes.as_slice())))) else {
        rep.violation("lookup/setup", "probe archive does not open (async)", json!({"kind":"lookup-setup"}));
        return;
    };
    let mut n_out = 0u64;
    let mut n_in = 0u64;
    let mut outcomes: BTreeSet<String> = BTreeSet::new();
    for (z, x, y, in_grid) in probes.iter() {
        let results: Vec<(&str, Out<Option<Vec<u8>>>)> = vec![
            ("memory/sync", call(|| mem.get_tile(*x, *y, *z))),
            ("opened/sync", call(|| opened.get_tile(*x, *y, *z))),
            ("opened/async", call(|| block_on(opened_async.get_tile_async(*x, *y, *z)))),
        ];
        for (which, r) in results {
            let case = json!({"kind":"lookup","z":z,"x":x.to_string(),"y":y.to_string(),"which":which});
            if *in_grid {
                let want = content_for(hilbert::zxy_to_id(*z, *x, *y));
                match r {
                    Out::Ok(Some(b)) if b == want => {
                        outcomes.insert("in-grid:tile".into());
                    }
                    o => rep.violation(format!("lookup-in-grid/{which}"), format!("get_tile({x},{y},{z}) = {}, expected the tile's bytes", o.describe()), case),
                }
            } else {
                let zk = if *z >= 32 { "zoom>=32" } else { "outside-grid" };
                match r {
                    Out::Ok(None) => {
                        outcomes.insert("out:none".into());
                    }
                    Out::Err(_) => {
                        outcomes.insert("out:err".into());
                    }
                    Out::Ok(Some(b)) => rep.violation(
                        format!("lookup-returns-tile/{zk}/{which}"),
                        format!("get_tile(x={x}, y={y}, z={z}) does not denote a tile but returned the bytes of tile id {}", if b.len() == 9 { u64::from_le_bytes(b[1..9].try_into().unwrap()).to_string() } else { "?".into() }),
                        case,
                    ),
                    Out::Panic(p) => rep.violation(format!("lookup-panic/{zk}/{which}"), format!("get_tile(x={x}, y={y}, z={z}) panics: {p}"), case),
                }
            }
        }
        if *in_grid {
            n_in += 1;
        } else {
            n_out += 1;
        }
    }
    rep.eval((n_in + n_out) * 3);
    rep.nontrivial(n_out);
    rep.count("lookup_probes_in_grid", n_in);
    rep.count("lookup_probes_not_a_tile", n_out);
    rep.count("lookup_archive_tiles", ids.len() as u64);
    rep.set("lookup_outcomes", json!(outcomes.into_iter().collect::<Vec<_>>()));
}

pub fn replay(case: &Value) -> Vec<String> {
    let num = |k: &str| case[k].as_str().and_then(|s| s.parse::<u64>().ok()).unwrap_or(0);
    let mut out = Vec::new();
    match case["kind"].as_str() {
        Some("point") => {
            if let Some((k, d)) = check_point(case["z"].as_u64().unwrap_or(0) as u8, num("x"), num("y")) {
                out.push(format!("{k}: {d}"));
            }
        }
        Some("id") => {
            if let Some((k, d)) = check_id(num("id")) {
                out.push(format!("{k}: {d}"));
            }
        }
        Some("lookup") => {
            let (z, x, y) = (case["z"].as_u64().unwrap_or(0) as u8, num("x"), num("y"));
            let in_grid = z <= 31 && x < (1u64 << z) && y < (1u64 << z);
            let mut mem = PMTiles::new(TileType::Png, Compression::None);
            if let Ok(id) = lib_tile_id(z, x, y) {
                mem.add_tile(id, content_for(id)).unwrap();
            }
            match call(|| mem.get_tile(x, y, z)) {
                Out::Ok(Some(_)) if !in_grid => out.push(format!("get_tile({x},{y},{z}) returned a tile although the coordinates denote none")),
                Out::Panic(p) => out.push(format!("get_tile({x},{y},{z}) panics: {p}")),
                _ => {}
            }
        }
        _ => out.push("unknown replay kind".into()),
    }
    out
}

//! C15 - I/O failures surface as errors, never as success or a crash.
//! Engine E4: for each scenario the fault-free run records N stream calls; for every k < N the
//! execution in which call k and all later calls fail is run (exhaustive in k).
use super::scen::*;
use crate::env::{DefaultChooser, EofFrom, FailFromStyled, Kind};
use std::io::ErrorKind;
use crate::report::Report;
use rayon::prelude::*;
use serde_json::{json, Value};

/// judge one faulty execution against the fault-free one
pub fn judge_fault(role: Role, base: &Outcome, o: &Outcome) -> Option<(&'static str, String)> {
    // sessions: every constituent call is judged on its own - an Ok must carry the fault-free value
    if !base.parts.is_empty() {
        if let Err(e) = &o.result {
            if e.starts_with("PANIC") {
                return Some(("panic", format!("panics: {e}")));
            }
        }
        for (i, (name, r)) in o.parts.iter().enumerate() {
            if let Ok(v) = r {
                match base.parts.get(i) {
                    Some((bn, Ok(bv))) if bn == name && bv == v => {}
                    other => {
                        return Some(("ok-after-fault", format!("call '{name}' of the session returns Ok({}) but the fault-free session has {:?} there", v.chars().take(80).collect::<String>(), other.map(|x| x.1.as_ref().map(|s| s.chars().take(80).collect::<String>())))));
                    }
                }
            }
        }
        return None;
    }
    match &o.result {
        Err(e) if e.starts_with("PANIC") => Some(("panic", format!("panics: {e}"))),
        Err(_) => None,
        Ok(v) => {
            // success is only acceptable if the object was completely transferred
            let complete = match role {
                Role::Writer => o.image == base.image,
                Role::Reader => Ok(v) == base.result.as_ref(),
            };
            if complete {
                // every k < N makes one operation of the fault-free run fail, and the property says the
                // call returns an error in that case - a success is only tolerable if the library can
                // not have observed the failure at all, which does not happen under fail-stop
                Some(("ok-after-fault-complete", "returns Ok although a stream operation failed (the transferred data happens to be complete)".to_string()))
            } else if role == Role::Writer {
                Some(("ok-after-fault", format!("returns Ok although the output is incomplete ({} of {} bytes identical prefix, image length {})", o.image.iter().zip(base.image.iter()).take_while(|(a, b)| a == b).count(), base.image.len(), o.image.len())))
            } else {
                Some(("ok-after-fault", "returns Ok with a value different from the fault-free value".to_string()))
            }
        }
    }
}

pub fn run(tier: &str) -> i32 {
    let rep = Report::new("C15", tier, "fault_enumeration");
    rep.rule("for each scenario (header/directory/archive read and write, lookups, re-write over a failing backing reader, read_directories/write_directories, codec adapters; 4 compressions; sync and async; leaf-spill writers) the fault-free run records N stream calls (reads, writes, seeks, flushes, closes - including those issued from a codec's Drop); every k in [0,N) is executed with call k and all later calls failing, once per error kind in {Other, UnexpectedEof, BrokenPipe, InvalidData, TimedOut, WouldBlock} built with a payload, and for Other/UnexpectedEof also as a bare kind without payload and as a raw OS error (EIO) (Interrupted is excluded: std retries it forever on a fail-stop stream), and once with the source simply ending at call k (reads deliver 0 bytes); oracle: Err, or Ok only with the complete image/value; a panic is a violation; non-trivial = every faulty execution; distinct = (scenario, k)");
    rep.assume("fail-stop faults only (sticky); transient faults are outside the property");
    let scs = scenarios(true);
    let mut kinds_hit: std::collections::BTreeMap<String, u64> = Default::default();
    for sc in scs.iter().filter(|s| s.faults) {
        let (base, h) = (sc.run)(Box::new(DefaultChooser));
        if base.result.is_err() {
            rep.violation(format!("baseline-fails/{}", sc.name), format!("scenario fails without any fault: {:?}", base.result), json!({"kind":"fault","scenario":sc.name,"k":-1}));
            continue;
        }
        let n = h.calls();
        let log = h.log();
        // heavy scenarios: every k in thorough; in quick every call of the first/last 300 and every 7th in between
        let ks: Vec<usize> = (0..n).collect();
        if ks.len() < n {
            rep.count("fault_points_skipped_in_quick_tier", (n - ks.len()) as u64);
        }
        // a stream may report a failure with any error kind: the generic one, and the kinds a library is
        // most tempted to treat specially (end of stream, connection loss, bad data)
        // ... and in any representation: with a custom payload (style 0), as a bare kind without payload (1), as a raw OS
        // error (2, EIO - what a file or socket returns)
        let kinds = [(ErrorKind::Other, 0u8), (ErrorKind::UnexpectedEof, 0), (ErrorKind::BrokenPipe, 0), (ErrorKind::InvalidData, 0), (ErrorKind::TimedOut, 0), (ErrorKind::WouldBlock, 0), (ErrorKind::Other, 1), (ErrorKind::UnexpectedEof, 1), (ErrorKind::Other, 2)];
        let cases: Vec<(usize, ErrorKind, u8)> = ks.iter().flat_map(|k| kinds.iter().map(move |e| (*k, e.0, e.1))).collect();
        let res: Vec<(usize, (ErrorKind, u8), Option<(&'static str, String)>, Kind)> = cases
            .par_iter()
            .map(|(k, ek, st)| {
                let (o, h2) = (sc.run)(Box::new(FailFromStyled(*k, *ek, *st)));
                let failed_kind = h2.log().iter().find(|op| op.failed).map(|op| op.kind).unwrap_or(Kind::Flush);
                (*k, (*ek, *st), judge_fault(sc.role, &base, &o), failed_kind)
            })
            .collect();
        rep.eval(cases.len() as u64);
        rep.nontrivial(cases.len() as u64);
        rep.count("scenarios", 1);
        rep.count("fault_points", ks.len() as u64);
        rep.count("faulty_executions", cases.len() as u64);
        for (k, (ek, st), bad, fk) in res {
            *kinds_hit.entry(format!("{fk:?}")).or_insert(0) += 1;
            if let Some((what, d)) = bad {
                rep.violation(format!("{what}/{}", sc.name), format!("fault ({ek:?}, {}) from call {k} of {n} ({:?} at offset {}): {d}", ["with payload", "bare kind, no payload", "raw OS error EIO"][st as usize % 3], log.get(k).map(|o| o.kind), log.get(k).map(|o| o.pos).unwrap_or(0)), json!({"kind":"fault","scenario":sc.name,"k":k,"error_kind":format!("{ek:?}"),"error_style":st}));
            }
        }
        // the stream ends at call k: nothing more is delivered or accepted. Success is only acceptable with the
        // complete value/image (the library may already have everything it needs)
        let eres: Vec<(usize, Option<(&'static str, String)>)> = ks
            .par_iter()
            .map(|k| {
                let (o, _) = (sc.run)(Box::new(EofFrom(*k)));
                let bad = match &o.result {
                    Err(e) if e.starts_with("PANIC") => Some(("panic", format!("panics: {e}"))),
                    Err(_) => None,
                    Ok(_) if !base.parts.is_empty() => {
                        let mut r = None;
                        for (i, (name, pr)) in o.parts.iter().enumerate() {
                            if let Ok(v) = pr {
                                if !matches!(base.parts.get(i), Some((bn, Ok(bv))) if bn == name && bv == v) {
                                    r = Some(("ok-after-end-of-stream", format!("call '{name}' returns Ok({}) which is not the value of the complete stream", v.chars().take(80).collect::<String>())));
                                    break;
                                }
                            }
                        }
                        r
                    }
                    Ok(v) => {
                        let complete = match sc.role {
                            Role::Writer => o.image == base.image,
                            Role::Reader => Ok(v) == base.result.as_ref(),
                        };
                        if complete { None } else { Some(("ok-after-end-of-stream", "returns Ok although the stream ended before the data was complete".to_string())) }
                    }
                };
                (*k, bad)
            })
            .collect();
        rep.eval(ks.len() as u64);
        rep.count("end_of_stream_executions", ks.len() as u64);
        for (k, bad) in eres {
            if let Some((what, d)) = bad {
                rep.violation(format!("{what}/{}", sc.name), format!("stream ends at call {k} of {n}: {d}"), json!({"kind":"eof","scenario":sc.name,"k":k}));
            }
        }
        rep.sample(n as u64, || json!({"scenario":sc.name,"N":n,"ops":log.iter().take(12).map(|o| format!("{:?}@{}+{}", o.kind, o.pos, o.done)).collect::<Vec<_>>()}));
        if sc.name == "dir-write/gzip/sync" || sc.name == "archive-write/zstd/async" {
            rep.force_sample(json!({"scenario":sc.name,"N":n,"ops":log.iter().map(|o| format!("{:?}@{}+{}", o.kind, o.pos, o.done)).collect::<Vec<_>>()}));
        }
    }
    rep.set("first_failing_call_kinds", json!(kinds_hit));
    rep.finish()
}

pub fn replay(case: &Value) -> Vec<String> {
    let name = case["scenario"].as_str().unwrap_or("");
    let scs = scenarios(true);
    let Some(sc) = scs.iter().find(|s| s.name == name) else { return vec![format!("unknown scenario {name}")] };
    let (base, _) = (sc.run)(Box::new(DefaultChooser));
    let k = case["k"].as_u64().unwrap_or(0) as usize;
    if case["kind"].as_str() == Some("eof") {
        let (o, _) = (sc.run)(Box::new(EofFrom(k)));
        return match &o.result {
            Ok(v) if base.parts.is_empty() && !(match sc.role { Role::Writer => o.image == base.image, Role::Reader => Ok(v) == base.result.as_ref() }) => vec!["Ok after the stream ended early".to_string()],
            Ok(_) if o.parts.iter().enumerate().any(|(i, (n, r))| r.is_ok() && !matches!(base.parts.get(i), Some((bn, br)) if bn == n && br == r)) => vec!["a call of the session returns Ok with an incomplete value".to_string()],
            Err(e) if e.starts_with("PANIC") => vec![e.clone()],
            _ => vec![],
        };
    }
    let ek = match case["error_kind"].as_str() {
        Some("UnexpectedEof") => ErrorKind::UnexpectedEof,
        Some("BrokenPipe") => ErrorKind::BrokenPipe,
        Some("InvalidData") => ErrorKind::InvalidData,
        Some("TimedOut") => ErrorKind::TimedOut,
        Some("WouldBlock") => ErrorKind::WouldBlock,
        _ => ErrorKind::Other,
    };
    let (o, _) = (sc.run)(Box::new(FailFromStyled(k, ek, case["error_style"].as_u64().unwrap_or(0) as u8)));
    judge_fault(sc.role, &base, &o).map(|(w, d)| format!("{w}: {d}")).into_iter().collect()
}

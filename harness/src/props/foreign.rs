//! Generator of spec-valid foreign archives (independent encoder, free layout). Used by C03, C11, C12, C20.
use crate::spec::archive::{encode_foreign, Foreign, Layout, Node, Sec};
use crate::spec::dir::SEntry;
use crate::spec::header::SHeader;
use serde_json::{json, Value};

#[derive(Debug, Clone, Copy, PartialEq, Eq)]
pub enum Shape {
    RootOnly,
    Leaves,
    Depth3,
    Mixed,
}
pub const SHAPES: [Shape; 4] = [Shape::RootOnly, Shape::Leaves, Shape::Depth3, Shape::Mixed];

#[derive(Debug, Clone, Copy, PartialEq, Eq)]
pub enum Offs {
    Contiguous,
    BackRefs,
    Descending,
    Overlapping,
    /// the same bytes stored more than once at different offsets (a writer that does not deduplicate)
    Duplicates,
    /// every tile's bytes lie strictly inside the preceding tile's bytes: the tile that starts last ends first
    Nested,
}
pub const OFFS: [Offs; 6] = [Offs::Contiguous, Offs::BackRefs, Offs::Descending, Offs::Overlapping, Offs::Duplicates, Offs::Nested];

pub const ORDERS: [[Sec; 3]; 6] = [
    [Sec::Meta, Sec::Leaves, Sec::Data],
    [Sec::Meta, Sec::Data, Sec::Leaves],
    [Sec::Leaves, Sec::Meta, Sec::Data],
    [Sec::Leaves, Sec::Data, Sec::Meta],
    [Sec::Data, Sec::Meta, Sec::Leaves],
    [Sec::Data, Sec::Leaves, Sec::Meta],
];

#[derive(Debug, Clone)]
pub struct Spec {
    pub order: usize,
    pub gap: usize,
    pub root_gap: bool,
    pub shape: Shape,
    pub run: u32,
    pub offs: Offs,
    pub n: usize,
    /// 0 = metadata length 0, 1 = {}, 2 = object
    pub meta: u8,
    pub comp: u8,
    /// first tile id
    pub base: u64,
    /// header settings variant
    pub hv: u8,
    /// leaf directories in level order (deepest first) instead of depth-first post-order
    pub level_order: bool,
    /// encoder parameter set of the internal compression (see spec::codec::with_variant)
    pub cv: u8,
}

impl Spec {
    pub fn to_json(&self) -> Value {
        json!({"kind":"foreign","order":self.order,"gap":self.gap,"root_gap":self.root_gap,"shape":format!("{:?}",self.shape),"run":self.run,
               "offs":format!("{:?}",self.offs),"n":self.n,"meta":self.meta,"comp":self.comp,"base":self.base.to_string(),"hv":self.hv,"level_order":self.level_order,"cv":self.cv})
    }
    pub fn from_json(v: &Value) -> Spec {
        Spec {
            order: v["order"].as_u64().unwrap_or(0) as usize,
            gap: v["gap"].as_u64().unwrap_or(0) as usize,
            root_gap: v["root_gap"].as_bool().unwrap_or(false),
            shape: SHAPES.into_iter().find(|s| Some(format!("{s:?}").as_str()) == v["shape"].as_str()).unwrap_or(Shape::RootOnly),
            run: v["run"].as_u64().unwrap_or(1) as u32,
            offs: OFFS.into_iter().find(|s| Some(format!("{s:?}").as_str()) == v["offs"].as_str()).unwrap_or(Offs::Contiguous),
            n: v["n"].as_u64().unwrap_or(0) as usize,
            meta: v["meta"].as_u64().unwrap_or(0) as u8,
            comp: v["comp"].as_u64().unwrap_or(1) as u8,
            base: v["base"].as_str().and_then(|s| s.parse().ok()).unwrap_or(0),
            hv: v["hv"].as_u64().unwrap_or(0) as u8,
            level_order: v["level_order"].as_bool().unwrap_or(false),
            cv: v["cv"].as_u64().unwrap_or(0) as u8,
        }
    }
}

pub const META_OBJECT: &str = r#"{"name":"foreign","n":[1,2.5,null],"o":{"k":"v"}}"#;
/// the same kind of object as another writer might pretty-print it: whitespace everywhere, escapes, exponents
pub const META_SPACED: &str = "  {\n\t\"k\\u00e9\" : [ 1 , 2.50 , 1e2 , -0 , 1.0E-2 ] ,\r\n \"s\" : \"\\u0041\\n\\/\" , \"o\" : { } , \"t\" : true\n}\n \n";

pub fn header_variant(hv: u8) -> SHeader {
    let mut h = SHeader::default();
    match hv % 4 {
        0 => {
            h.tile_type = 2;
            h.tile_compression = 1;
        }
        1 => {
            h.tile_type = 1;
            h.tile_compression = 2;
            h.min_zoom = 1;
            h.max_zoom = 14;
            h.center_zoom = 7;
            h.min_lon = 111_540_260;
            h.min_lat = 437_270_125;
            h.max_lon = 113_289_395;
            h.max_lat = 438_325_455;
            h.center_lon = 112_414_827;
            h.center_lat = 437_797_790;
            h.clustered = 1;
        }
        2 => {
            h.tile_type = 5;
            h.tile_compression = 4;
            h.min_zoom = 0;
            h.max_zoom = 31;
            h.center_zoom = 255;
            h.min_lon = -1_800_000_000;
            h.min_lat = -850_511_287;
            h.max_lon = 1_800_000_000;
            h.max_lat = 850_511_287;
            h.center_lon = 21;
            h.center_lat = -21;
        }
        _ => {
            h.tile_type = 0;
            h.tile_compression = 0;
            h.min_lon = i32::MIN;
            h.max_lon = i32::MAX;
            h.center_lat = 1;
        }
    }
    h
}

/// tile entries and the data blob for a spec
fn tiles_of(s: &Spec) -> (Vec<SEntry>, Vec<u8>) {
    let n = s.n;
    let mut es = Vec::with_capacity(n);
    let len = |k: usize| 1 + (k % 3) as u32;
    let content = |k: usize| -> Vec<u8> { (0..len(k)).map(|j| b'a' + ((k * 3 + j as usize) % 26) as u8).collect() };
    let mut data = Vec::new();
    let mut offs: Vec<(u64, u32)> = Vec::with_capacity(n);
    match s.offs {
        Offs::Contiguous => {
            for k in 0..n {
                offs.push((data.len() as u64, len(k)));
                data.extend(content(k));
            }
        }
        Offs::BackRefs => {
            for k in 0..n {
                if k >= 2 && k % 2 == 0 {
                    offs.push(offs[0]);
                } else {
                    offs.push((data.len() as u64, len(k)));
                    data.extend(content(k));
                }
            }
        }
        Offs::Descending => {
            let total: u64 = (0..n).map(|k| u64::from(len(k))).sum();
            data = vec![0; total as usize];
            let mut end = total;
            for k in 0..n {
                let l = len(k);
                end -= u64::from(l);
                data[end as usize..(end + u64::from(l)) as usize].copy_from_slice(&content(k));
                offs.push((end, l));
            }
        }
        Offs::Duplicates => {
            for k in 0..n {
                // only two distinct contents (of equal length), each stored again and again
                let c = content(k % 2 + 3);
                offs.push((data.len() as u64, c.len() as u32));
                data.extend(c);
            }
        }
        Offs::Nested => {
            data = (0..2 * n + 1).map(|j| b'a' + (j % 26) as u8).collect();
            for k in 0..n {
                offs.push((k as u64, (2 * (n - k) - 1) as u32));
            }
        }
        Offs::Overlapping => {
            data = (0..n + 4).map(|j| b'A' + (j % 26) as u8).collect();
            for k in 0..n {
                offs.push(((k / 2) as u64, 3));
            }
        }
    }
    let mut id = s.base;
    for k in 0..n {
        es.push(SEntry::new(id, offs[k].0, offs[k].1, s.run));
        // alternate between adjacent runs and a gap of one id
        id += u64::from(s.run) + (k % 2) as u64;
    }
    (es, data)
}

fn tree_of(shape: Shape, es: &[SEntry]) -> Vec<Node> {
    let tiles = |c: &[SEntry]| c.iter().map(|e| Node::Tile(*e)).collect::<Vec<_>>();
    if es.is_empty() {
        return Vec::new();
    }
    match shape {
        Shape::RootOnly => tiles(es),
        Shape::Leaves => es.chunks(2).map(|c| Node::Leaf(c[0].tile_id, tiles(c))).collect(),
        Shape::Depth3 => es
            .chunks(4)
            .map(|c4| Node::Leaf(c4[0].tile_id, c4.chunks(2).map(|c| Node::Leaf(c[0].tile_id, tiles(c))).collect()))
            .collect(),
        Shape::Mixed => {
            let mut out = Vec::new();
            for (i, c) in es.chunks(2).enumerate() {
                if i % 2 == 0 {
                    out.extend(tiles(c));
                } else {
                    out.push(Node::Leaf(c[0].tile_id, tiles(c)));
                }
            }
            out
        }
    }
}

pub fn build(s: &Spec) -> Foreign {
    let (es, data) = tiles_of(s);
    let root = tree_of(s.shape, &es);
    let lay = Layout { order: ORDERS[s.order % 6], gap: s.gap, root_gap: s.root_gap, leaves_child_first: s.level_order, leaf_gap: if s.gap == 13 { 2 } else { 0 } };
    let big = big_meta(s.meta);
    let meta: Option<&[u8]> = match s.meta {
        0 => None,
        1 => Some(b"{}"),
        3 => Some(META_SPACED.as_bytes()),
        4..=7 => Some(big.as_bytes()),
        _ => Some(META_OBJECT.as_bytes()),
    };
    let mut f = crate::spec::codec::with_variant(s.cv, || encode_foreign(&root, &data, meta, s.comp, &lay, header_variant(s.hv)));
    if s.hv % 4 == 3 {
        // the specification allows a writer to leave the three statistics at 0 ("unknown")
        f.header.n_addressed = 0;
        f.header.n_entries = 0;
        f.header.n_contents = 0;
        let hb = f.header.encode();
        f.bytes[..127].copy_from_slice(&hb);
    }
    f
}

/// A mixed root directory in which the 'contiguous' offset shorthand (0) is used across entry kinds:
/// the leaf pointer starts where the preceding tile entry ends (5), and the tile entry behind the pointer
/// starts where the pointer ends (5 + leaf length). A conforming encoder writes 0 for both.
pub fn mixed_shorthand(comp: u8) -> Foreign {
    use crate::spec::archive::Node;
    let lay = Layout { order: ORDERS[0], gap: 0, root_gap: false, leaves_child_first: false, leaf_gap: 5 };
    let build_with = |b_off: u64| {
        let root = vec![
            Node::Tile(SEntry::new(0, 0, 5, 1)),
            Node::Leaf(10, vec![Node::Tile(SEntry::new(10, 20, 3, 1)), Node::Tile(SEntry::new(12, 23, 2, 2))]),
            Node::Tile(SEntry::new(50, b_off, 4, 1)),
        ];
        let data: Vec<u8> = (0..200u32).map(|i| b'a' + (i % 26) as u8).collect();
        encode_foreign(&root, &data, Some(b"{}"), comp, &lay, header_variant(1))
    };
    let first = build_with(100);
    let ptr = first.dirs[0].1[1];
    assert_eq!(ptr.offset, 5, "HARNESS: leaf expected at offset 5 of the leaf section");
    let f = build_with(ptr.offset + u64::from(ptr.length));
    // the shorthand must really be in use in the encoded root
    let re = crate::spec::dir::encode(&f.dirs[0].1);
    debug_assert!(re.ends_with(&[1, 0, 0]), "HARNESS: root offsets should encode as [1,0,0], got {re:?}");
    f
}

/// metadata documents around and above the 2048-byte buffer an opening reads metadata into: exactly 2048, 2049 and
/// 4097 bytes, and 70 KB (kinds 4..7)
pub fn big_meta(kind: u8) -> String {
    let total = match kind {
        4 => 2048usize,
        5 => 2049,
        6 => 4097,
        7 => 70_000,
        _ => return String::new(),
    };
    let frame = r#"{"blob":""}"#.len();
    format!(r#"{{"blob":"{}"}}"#, "m".repeat(total - frame))
}

pub fn expected_meta(s: &Spec) -> serde_json::Map<String, Value> {
    if (4..=7).contains(&s.meta) {
        return serde_json::from_str::<Value>(&big_meta(s.meta)).unwrap().as_object().unwrap().clone();
    }
    match s.meta {
        2 => serde_json::from_str::<Value>(META_OBJECT).unwrap().as_object().unwrap().clone(),
        3 => serde_json::json!({"k\u{e9}": [1, 2.5, 100.0, -0.0, 0.01], "s": "A\n/", "o": {}, "t": true}).as_object().unwrap().clone(),
        _ => serde_json::Map::new(),
    }
}

/// the product alphabet of C03
pub fn product(thorough: bool) -> Vec<Spec> {
    let mut layouts: Vec<(usize, usize, bool)> = Vec::new();
    if thorough {
        for o in 0..6 {
            for g in [0usize, 1, 13] {
                layouts.push((o, g, false));
                if g > 0 {
                    layouts.push((o, g, true));
                }
            }
        }
    } else {
        for o in 0..6 {
            layouts.push((o, 0, false));
            layouts.push((o, 13, false));
        }
        layouts.push((0, 1, true));
        layouts.push((3, 13, true));
    }
    let mut out = Vec::new();
    let mut idx = 0u64;
    for (o, g, rg) in layouts {
        for shape in SHAPES {
            for run in [1u32, 2, 3] {
                for offs in OFFS {
                    for n in [0usize, 1, 2, 3, 7] {
                        if n == 0 && (shape != Shape::RootOnly || run != 1 || offs != Offs::Contiguous) {
                            continue;
                        }
                        for meta in 0..4u8 {
                            for comp in 1..=4u8 {
                                idx += 1;
                                out.push(Spec { order: o, gap: g, root_gap: rg, shape, run, offs, n, meta, comp, base: [0u64, 1, 5, 1 << 40][(idx % 4) as usize], hv: (idx % 4) as u8, level_order: false, cv: 0 });
                                // nested shapes also in level order (sibling leaves back to back, children elsewhere)
                                if shape == Shape::Depth3 && n >= 3 {
                                    out.push(Spec { order: o, gap: g, root_gap: rg, shape, run, offs, n, meta, comp, base: [0u64, 1, 5, 1 << 40][(idx % 4) as usize], hv: (idx % 4) as u8, level_order: true, cv: 0 });
                                }
                            }
                        }
                    }
                }
            }
        }
    }
    // metadata of exactly 2048 / 2049 / 4097 bytes and of 70 KB
    let bigm: Vec<Spec> = out.iter().filter(|s| s.n == 3 && s.meta == 2 && s.gap == 0 && s.order < 3 && s.run == 1 && s.offs == Offs::Contiguous && matches!(s.shape, Shape::RootOnly | Shape::Leaves)).cloned().collect();
    for mut s in bigm {
        for m in 4..=7u8 {
            s.meta = m;
            out.push(s.clone());
        }
    }
    // the same content from encoders with other parameters (maximum and minimum settings, see spec::codec)
    let base: Vec<Spec> = out.iter().filter(|s| s.n == 7 && s.meta >= 2 && s.comp >= 2 && s.gap == 0 && s.order < 2 && s.run == 2 && matches!(s.offs, Offs::Contiguous | Offs::BackRefs)).cloned().collect();
    for mut s in base {
        for cv in [1u8, 2] {
            s.cv = cv;
            out.push(s.clone());
        }
    }
    out
}

/// Foreign archives used as the base of open -> edit -> write subjects (C02): name, bytes, the logical archive
/// they hold. Free layouts, every offset pattern, nested directories; header variants 0 and 1.
pub fn rewrite_bases() -> Vec<(String, Vec<u8>, crate::model::Logical)> {
    use crate::model::{Logical, Settings};
    let mut out = Vec::new();
    let mut idx = 0usize;
    for offs in OFFS {
        for (shape, n, run) in [(Shape::RootOnly, 7usize, 1u32), (Shape::Leaves, 7, 2), (Shape::Depth3, 12, 1), (Shape::Mixed, 5, 3)] {
            idx += 1;
            let comp = (idx % 4) as u8 + 1;
            let hv = (idx % 2) as u8;
            let s = Spec { order: idx % 6, gap: [0usize, 1, 13][idx % 3], root_gap: idx % 5 == 0, shape, run, offs, n, meta: 2 + (idx % 2) as u8, comp, base: [0u64, 1, 5][idx % 3], hv, level_order: shape == Shape::Depth3 && idx % 2 == 0, cv: (idx % 3) as u8 };
            let f = build(&s);
            let internal = crate::common::comp_from_code(comp);
            let mut l = Logical::new(internal);
            for (id, (o, len)) in f.expected.iter() {
                let a = *o as usize;
                l.tiles.insert(*id, f.bytes[a..a + *len as usize].to_vec());
            }
            l.meta = expected_meta(&s);
            let h = header_variant(hv);
            l.settings = Settings {
                tile_type: super::util::tt_of_code(h.tile_type).unwrap_or(pmtiles2::TileType::Unknown),
                tile_compression: crate::common::comp_from_code(h.tile_compression),
                internal,
                min_zoom: h.min_zoom,
                max_zoom: h.max_zoom,
                center_zoom: h.center_zoom,
                coords: [h.min_lon, h.min_lat, h.max_lon, h.max_lat, h.center_lon, h.center_lat].map(|k| f64::from(k) / 1e7),
            };
            out.push((format!("foreign {:?}/{:?} n={n} run={run} comp={comp}", shape, offs), f.bytes, l));
        }
    }
    out
}

//! C03 - spec-valid archives from other writers open to exactly the content they address.
use super::foreign::*;
use super::util::*;
use crate::common::{block_on, catch};
use crate::model::*;
use crate::report::Report;
use crate::spec::archive::{read_archive, Foreign};
use crate::spec::dir::SEntry;
use crate::spec::latlng::stored_to_deg;
use pmtiles2::util::{read_directories, read_directories_async};
use pmtiles2::PMTiles;
use rayon::prelude::*;
use serde_json::{json, Value};
use std::collections::{BTreeMap, BTreeSet};

fn probes(f: &Foreign) -> Vec<u64> {
    let mut v: BTreeSet<u64> = BTreeSet::new();
    for id in f.expected.keys() {
        v.insert(*id);
        v.insert(id.wrapping_add(1));
        v.insert(id.wrapping_sub(1));
    }
    v.insert(0);
    v.insert(u64::MAX);
    v.into_iter().collect()
}

pub fn check_view(f: &Foreign, v: &View, want_meta: &serde_json::Map<String, Value>, tag: &str) -> Vec<(String, String)> {
    let mut bad = Vec::new();
    let want_ids: Vec<u64> = f.expected.keys().copied().collect();
    if v.ids != want_ids {
        bad.push(("ids".into(), format!("{tag} tile ids {:?} != addressed {:?}", v.ids.iter().take(10).collect::<Vec<_>>(), want_ids.iter().take(10).collect::<Vec<_>>())));
    }
    if v.num_tiles != want_ids.len() {
        bad.push(("count".into(), format!("{tag} num_tiles {} != {}", v.num_tiles, want_ids.len())));
    }
    for (id, got) in v.tiles.iter() {
        let want = f.expected.get(id).map(|(o, l)| &f.bytes[*o as usize..*o as usize + *l as usize]);
        match (want, got) {
            (Some(w), Ok(Some(g))) if w == g.as_slice() => {}
            (None, Ok(None)) => {}
            (w, g) => bad.push(("tile-bytes".into(), format!("{tag} tile {id}: expected {:?}, got {:?}", w.map(crate::report::brief), g.as_ref().map(|o| o.as_ref().map(|b| crate::report::brief(b)))))),
        }
    }
    if &v.meta != want_meta {
        bad.push(("metadata".into(), format!("{tag} metadata {:?} != stored", serde_json::Value::Object(v.meta.clone()).to_string())));
    }
    let h = &f.header;
    let s = &v.settings;
    if crate::common::comp_code(s.internal) != h.internal_compression || crate::common::comp_code(s.tile_compression) != h.tile_compression || code_of_tt(s.tile_type) != h.tile_type {
        bad.push(("header-enums".into(), format!("{tag} type/compression settings differ from the stored header")));
    }
    if (s.min_zoom, s.max_zoom, s.center_zoom) != (h.min_zoom, h.max_zoom, h.center_zoom) {
        bad.push(("header-zooms".into(), format!("{tag} zooms differ from the stored header")));
    }
    for (i, k) in h.coords().iter().enumerate() {
        if s.coords[i].to_bits() != stored_to_deg(*k).to_bits() && !(s.coords[i] == 0.0 && *k == 0) {
            bad.push(("header-coords".into(), format!("{tag} coordinate #{i}: stored {k}, reported {:e}", s.coords[i])));
        }
    }
    bad
}

pub fn check_foreign(f: &Foreign, want_meta: &serde_json::Map<String, Value>) -> Vec<(String, String)> {
    let mut bad = Vec::new();
    let pr = probes(f);
    // three ways to open
    let views: Vec<(&str, Result<View, String>)> = vec![
        ("from_bytes", open_view(&f.bytes, Api::Sync, &pr)),
        (
            "from_reader",
            match catch(|| PMTiles::from_reader(std::io::Cursor::new(f.bytes.clone())).map(|mut pm| view_sync(&mut pm, &pr)).map_err(|e| e.to_string())) {
                Ok(r) => r,
                Err(p) => Err(format!("PANIC {p}")),
            },
        ),
        ("from_async_reader", open_view(&f.bytes, Api::Async, &pr)),
    ];
    for (name, v) in views {
        match v {
            Ok(v) => bad.extend(check_view(f, &v, want_meta, &format!("[{name}]"))),
            Err(e) => bad.push((if e.starts_with("PANIC") { "open-panic".into() } else { "open-error".into() }, format!("[{name}] {e}"))),
        }
    }
    // the directory-reading utility
    let h = &f.header;
    let want_rel: BTreeMap<u64, (u64, u32)> = f.expected.iter().map(|(id, (o, l))| (*id, (o - h.data_offset, *l))).collect();
    let comp = comp_of_code(h.internal_compression).unwrap();
    let r1 = call(|| {
        let mut c = std::io::Cursor::new(&f.bytes);
        read_directories(&mut c, comp, (h.root_offset, h.root_length), h.leaf_offset, ..)
    });
    let r2 = call(|| {
        let mut c = futures::io::Cursor::new(&f.bytes);
        block_on(read_directories_async(&mut c, comp, (h.root_offset, h.root_length), h.leaf_offset, ..))
    });
    for (name, r) in [("read_directories", r1), ("read_directories_async", r2)] {
        match r {
            Out::Ok(m) => {
                let got: BTreeMap<u64, (u64, u32)> = m.iter().map(|(k, v)| (*k, (v.offset, v.length))).collect();
                if got != want_rel {
                    bad.push(("read-directories".into(), format!("[{name}] map of {} ids differs from the {} addressed ids/offsets", got.len(), want_rel.len())));
                }
            }
            o => bad.push((format!("read-directories-{}", o.kind()), format!("[{name}] {}", o.describe()))),
        }
    }
    // single-directory lookup
    for (_, entries) in f.dirs.iter() {
        bad.extend(check_find_entry(entries));
    }
    bad
}

/// `Directory::find_entry_for_tile_id` == the unique tile entry whose run covers the id
pub fn check_find_entry(entries: &[SEntry]) -> Vec<(String, String)> {
    let mut bad = Vec::new();
    let d = to_lib_dir(entries);
    let mut ids: BTreeSet<u64> = BTreeSet::new();
    for e in entries {
        for x in [e.tile_id.wrapping_sub(1), e.tile_id, e.tile_id + 1, e.tile_id + u64::from(e.run_length).saturating_sub(1), e.tile_id + u64::from(e.run_length), e.tile_id + u64::from(e.run_length) + 1] {
            ids.insert(x);
        }
    }
    ids.insert(0);
    for id in ids {
        let want: Vec<&SEntry> = entries.iter().filter(|e| e.run_length > 0 && id >= e.tile_id && id - e.tile_id < u64::from(e.run_length)).collect();
        let got = catch(|| d.find_entry_for_tile_id(id).map(from_lib_entry));
        match got {
            Ok(g) => {
                if want.len() > 1 {
                    continue; // not a valid directory
                }
                if g.as_ref() != want.first().copied() {
                    bad.push(("find-entry".into(), format!("find_entry_for_tile_id({id}) = {g:?}, the entry covering it is {:?}", want.first())));
                }
            }
            Err(p) => bad.push(("find-entry-panic".into(), format!("find_entry_for_tile_id({id}) panics: {p}"))),
        }
    }
    bad
}

fn fixtures(rep: &Report) {
    let dir = "/repo/test";
    for (name, full_bytes) in [
        ("stamen_toner(raster)CC-BY+ODbL_z3.pmtiles", true),
        ("protomaps(vector)ODbL_firenze.pmtiles", true),
        ("protomaps_vector_planet_odbl_z10_without_data.pmtiles", false),
    ] {
        let Ok(bytes) = std::fs::read(format!("{dir}/{name}")) else {
            rep.count("fixtures_missing", 1);
            continue;
        };
        let p = match read_archive(&bytes, 1 << 24) {
            Ok(p) => p,
            Err(e) => {
                println!("MACHINERY: spec reader cannot read fixture {name}: {e}");
                std::process::exit(2);
            }
        };
        let case = json!({"kind":"fixture","name":name});
        let r = catch(|| -> Result<Vec<(String, String)>, String> {
            let mut bad = Vec::new();
            let mut pm = PMTiles::from_bytes(bytes.as_slice()).map_err(|e| e.to_string())?;
            let mut ids: Vec<u64> = pm.tile_ids().into_iter().copied().collect();
            ids.sort_unstable();
            let want: Vec<u64> = p.tiles.keys().copied().collect();
            if ids != want {
                bad.push(("fixture-ids".to_string(), format!("{name}: {} ids opened, spec reader addresses {}", ids.len(), want.len())));
            }
            if full_bytes {
                for id in want.iter() {
                    let w = p.tile_bytes(&bytes, *id).unwrap().map_err(|e| e.to_string())?;
                    match pm.get_tile_by_id(*id) {
                        Ok(Some(g)) if g == w => {}
                        other => bad.push(("fixture-bytes".to_string(), format!("{name}: tile {id} differs: {:?}", other.map(|o| o.map(|b| b.len()))))),
                    }
                }
            }
            // directory map against the spec reader (all ids)
            let h = &p.header;
            let mut c = std::io::Cursor::new(bytes.as_slice());
            let m = read_directories(&mut c, comp_of_code(h.internal_compression).unwrap(), (h.root_offset, h.root_length), h.leaf_offset, ..).map_err(|e| e.to_string())?;
            if m.len() != p.tiles.len() || p.tiles.iter().any(|(id, (o, l))| m.get(id).map(|x| (x.offset, x.length)) != Some((*o, *l))) {
                bad.push(("fixture-directories".to_string(), format!("{name}: read_directories map differs from the spec reader's")));
            }
            let meta: Value = if p.metadata.is_empty() { json!({}) } else { serde_json::from_slice(&p.metadata).map_err(|e| e.to_string())? };
            if Some(&pm.meta_data) != meta.as_object() {
                bad.push(("fixture-metadata".to_string(), format!("{name}: metadata differs")));
            }
            Ok(bad)
        });
        rep.eval(1);
        rep.nontrivial(1);
        rep.count("fixture_tiles_compared", p.tiles.len() as u64);
        match r {
            Ok(Ok(bad)) => {
                for (k, d) in bad {
                    rep.violation(k, d, case.clone());
                }
            }
            Ok(Err(e)) => rep.violation("fixture-open-error", format!("{name}: {e}"), case),
            Err(p) => rep.violation("fixture-panic", format!("{name}: {p}"), case),
        }
    }
}

/// Two objects (and the caller) on ONE stream: object `a` is opened fully and object `b` through a range filter on
/// clones of the same stream handle, so every lookup of one moves the position the other will find. For ALL ordered
/// triples (t1, x, t2) of ids: a.get(t1); between the calls either b.get(x) or the caller seeking to where x is
/// stored (or to 0 / the end); a.get(t2). Every lookup must return the addressed bytes.
pub fn shared_stream_sessions(f: &Foreign, api: Api) -> (u64, Vec<(String, String)>) {
    use crate::env::{DefaultChooser, Handle};
    let mut bad = Vec::new();
    let h = Handle::new(f.bytes.clone(), Box::new(DefaultChooser));
    let content = |id: u64| -> Option<Vec<u8>> { f.expected.get(&id).map(|(o, l)| f.bytes[*o as usize..*o as usize + *l as usize].to_vec()) };
    let mut ids: Vec<u64> = f.expected.keys().copied().collect();
    ids.truncate(8);
    let lo = ids.get(1).copied().unwrap_or(0);
    ids.push(f.expected.keys().last().map_or(77, |m| m + 1)); // an id that is not addressed
    let n = ids.len();
    let mut calls = 0u64;
    let r = catch(|| -> Result<(), String> {
        enum Pair {
            S(PMTiles<crate::env::SyncStream>, PMTiles<crate::env::SyncStream>),
            A(PMTiles<crate::env::AsyncStream>, PMTiles<crate::env::AsyncStream>),
        }
        // opening reads the header at the stream's current position: the caller rewinds before the second open
        let rewind = || h.0.lock().unwrap().pos = 0;
        let mut pair = match api {
            Api::Sync => {
                let a = PMTiles::from_reader(h.sync()).map_err(|e| format!("open a: {e}"))?;
                rewind();
                Pair::S(a, PMTiles::from_reader_partially(h.sync(), lo..).map_err(|e| format!("open b: {e}"))?)
            }
            Api::Async => {
                let a = block_on(PMTiles::from_async_reader(h.asyn())).map_err(|e| format!("open a: {e}"))?;
                rewind();
                Pair::A(a, block_on(PMTiles::from_async_reader_partially(h.asyn(), lo..)).map_err(|e| format!("open b: {e}"))?)
            }
        };
        let mut get = |which: u8, id: u64| -> Result<Option<Vec<u8>>, String> {
            match (&mut pair, which) {
                (Pair::S(a, _), 0) => a.get_tile_by_id(id).map_err(|e| e.to_string()),
                (Pair::S(_, b), _) => b.get_tile_by_id(id).map_err(|e| e.to_string()),
                (Pair::A(a, _), 0) => block_on(a.get_tile_by_id_async(id)).map_err(|e| e.to_string()),
                (Pair::A(_, b), _) => block_on(b.get_tile_by_id_async(id)).map_err(|e| e.to_string()),
            }
        };
        for i1 in 0..n {
            for ix in 0..n + 2 {
                for i2 in 0..n {
                    for by_other_object in [true, false] {
                        let (t1, t2) = (ids[i1], ids[i2]);
                        let g1 = get(0, t1);
                        calls += 1;
                        if g1 != Ok(content(t1)) {
                            bad.push((format!("shared-stream/first-lookup/{}", api.name()), format!("a.get({t1}) = {:?}, addressed bytes {:?}", g1, content(t1))));
                        }
                        let what;
                        if by_other_object && ix < n {
                            let x = ids[ix];
                            let want = if x >= lo { content(x) } else { None };
                            let gx = get(1, x);
                            calls += 1;
                            if gx != Ok(want.clone()) {
                                bad.push((format!("shared-stream/other-object/{}", api.name()), format!("after a.get({t1}): b.get({x}) = {gx:?}, expected {want:?}")));
                            }
                            what = format!("b.get({x})");
                        } else {
                            // the caller moves the stream: to the start of x's bytes, to 0, to the end
                            let p = if ix < n { f.expected.get(&ids[ix]).map_or(0, |(o, _)| *o) } else if ix == n { 0 } else { f.bytes.len() as u64 };
                            h.0.lock().unwrap().pos = p;
                            what = format!("the caller seeking to {p}");
                        }
                        let g2 = get(0, t2);
                        calls += 1;
                        if g2 != Ok(content(t2)) {
                            bad.push((format!("shared-stream/lookup-after-foreign-move/{}", api.name()), format!("a.get({t1}), then {what}, then a.get({t2}) = {:?}, addressed bytes {:?}", g2.as_ref().map(|o| o.as_ref().map(|b| crate::report::brief(b))), content(t2).map(|b| crate::report::brief(&b)))));
                        }
                        if bad.len() > 5 {
                            return Ok(());
                        }
                    }
                }
            }
        }
        Ok(())
    });
    match r {
        Ok(Ok(())) => {}
        Ok(Err(e)) => bad.push((format!("shared-stream/open-fails/{}", api.name()), e)),
        Err(p) => bad.push((format!("shared-stream/panic/{}", api.name()), p)),
    }
    (calls, bad)
}

pub fn run(tier: &str) -> i32 {
    let rep = Report::new("C03", tier, "exploration");
    let thorough = rep.thorough();
    rep.rule("product alphabet of foreign archives from the independent encoder: section order (6 permutations, root optionally behind a gap) x gap {0,1,13} x tree shape {root only, root->leaves, depth 3, mixed} x run length {1,2,3} x offsets {contiguous, back-references, descending, overlapping, duplicated, nested} x entries {0,1,2,3,7} x metadata {length 0, {}, object} x 4 compressions, opened through from_bytes/from_reader/from_async_reader, util::read_directories(_async) and Directory::find_entry_for_tile_id on every directory; plus sessions of two objects (one range-filtered) and the caller sharing ONE stream: all ordered triples a.get(t1) / b.get(x) or a foreign seek / a.get(t2) over the archive's ids; plus the three upstream fixtures compared tile by tile with the spec reader; non-trivial = archives with >=1 entry");
    rep.assume("directory trees deeper than 3 and more than a few thousand entries are outside the enumerated alphabet (fixtures reach 1.4M tiles)");
    // the full product is cheap enough for every tier; thorough adds longer directories
    let mut specs = product(true);
    // long directories (thousands of entries) in a slice of the layouts
    for (i, mut s) in product(false).into_iter().filter(|s| s.n == 7 && s.meta == 2).enumerate() {
        if i % 16 == 0 {
            s.n = 2500;
            specs.push(s);
        }
    }
    if thorough {
        for mut s in product(false).into_iter().filter(|s| s.n == 7) {
            s.n = 40;
            specs.push(s.clone());
            s.n = 333;
            specs.push(s);
        }
    }
    let bad: Vec<(usize, Vec<(String, String)>)> = specs
        .par_iter()
        .enumerate()
        .map(|(i, s)| {
            let f = build(s);
            (i, check_foreign(&f, &expected_meta(s)))
        })
        .filter(|x| !x.1.is_empty())
        .collect();
    rep.eval(specs.len() as u64 * 3);
    rep.nontrivial(specs.iter().filter(|s| s.n > 0).count() as u64);
    rep.count("foreign_archives", specs.len() as u64);
    rep.count("foreign_archives_with_leaf_directories", specs.iter().filter(|s| s.n > 0 && s.shape != Shape::RootOnly).count() as u64);
    for (i, b) in bad {
        for (k, d) in b {
            rep.violation(format!("{k}/{:?}", specs[i].shape), d, specs[i].to_json());
        }
    }
    // mixed root directory using the offset shorthand across entry kinds
    for comp in 1..=4u8 {
        let f = mixed_shorthand(comp);
        rep.eval(3);
        for (k, d) in check_foreign(&f, &serde_json::Map::new()) {
            rep.violation(format!("{k}/mixed-shorthand"), d, json!({"kind":"mixed-shorthand","comp":comp}));
        }
    }
    rep.count("mixed_shorthand_archives", 4);
    // two objects and the caller on one shared stream
    let shared: Vec<Spec> = product(false).into_iter().filter(|s| s.n == 7 && s.meta == 1).enumerate().filter(|(i, _)| thorough || i % 5 == 0).map(|(_, s)| s).collect();
    let res: Vec<(usize, Api, u64, Vec<(String, String)>)> = shared
        .par_iter()
        .enumerate()
        .flat_map_iter(|(i, s)| {
            let f = build(s);
            APIS.into_iter().map(|api| { let (c, b) = shared_stream_sessions(&f, api); (i, api, c, b) }).collect::<Vec<_>>()
        })
        .collect();
    rep.eval(res.iter().map(|r| r.2).sum());
    rep.nontrivial(res.len() as u64);
    rep.count("shared_stream_archives", shared.len() as u64);
    rep.count("shared_stream_lookups", res.iter().map(|r| r.2).sum());
    for (i, api, _, b) in res {
        for (k, d) in b.into_iter().take(3) {
            let mut case = shared[i].to_json();
            case["kind"] = json!("shared-stream");
            case["api"] = json!(api.name());
            rep.violation(format!("{k}/{:?}", shared[i].shape), d, case);
        }
    }
    fixtures(&rep);
    rep.force_sample(specs[specs.len() / 2].to_json());
    rep.force_sample(specs[specs.len() / 7].to_json());
    rep.finish()
}

pub fn replay(case: &Value) -> Vec<String> {
    if case["kind"].as_str() == Some("mixed-shorthand") {
        let f = mixed_shorthand(case["comp"].as_u64().unwrap_or(1) as u8);
        return check_foreign(&f, &serde_json::Map::new()).into_iter().map(|(k, d)| format!("{k}: {d}")).collect();
    }
    if case["kind"].as_str() == Some("fixture") {
        let rep = Report::new("C03", "quick", "exploration");
        // mixed root directory using the offset shorthand across entry kinds
    for comp in 1..=4u8 {
        let f = mixed_shorthand(comp);
        rep.eval(3);
        for (k, d) in check_foreign(&f, &serde_json::Map::new()) {
            rep.violation(format!("{k}/mixed-shorthand"), d, json!({"kind":"mixed-shorthand","comp":comp}));
        }
    }
    rep.count("mixed_shorthand_archives", 4);
    fixtures(&rep);
        return if rep.violations_so_far() == 0 { vec![] } else { vec!["fixture comparison still fails".into()] };
    }
    let s = Spec::from_json(case);
    if case["kind"].as_str() == Some("shared-stream") {
        let api = if case["api"].as_str() == Some("async") { Api::Async } else { Api::Sync };
        return shared_stream_sessions(&build(&s), api).1.into_iter().map(|(k, d)| format!("{k}: {d}")).collect();
    }
    check_foreign(&build(&s), &expected_meta(&s)).into_iter().map(|(k, d)| format!("{k}: {d}")).collect()
}

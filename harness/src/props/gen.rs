//! Shared generators of logical archives (alphabets of C01, reused by C02 C10 C12 C16).
use crate::common::xorshift_bytes;
use crate::model::{Logical, Settings, ALL_COMP_CODES, TILE_TYPES};
use pmtiles2::Compression;
use serde_json::{json, Map, Number, Value};

/// last valid tile id (last id of zoom 31)
pub const LAST: u64 = 6_148_914_691_236_517_204;
pub const IDS6: [u64; 6] = [0, 1, 2, 4, 5, LAST];
/// thorough tier: one more id inside the z1 block (5^7 maps)
pub const IDS7: [u64; 7] = [0, 1, 2, 3, 4, 5, LAST];

/// four related contents: "A", NUL, "A"+NUL (= the concatenation of the first two, which are its proper prefix
/// and proper suffix, and "A" plus a trailing zero byte) and "A"+0x01 (same length, different last byte)
pub fn contents4() -> [Vec<u8>; 4] {
    [vec![0x41], vec![0x00], vec![0x41, 0x00], vec![0x41, 0x01]]
}

/// all partial maps from the first `nids` ids of IDS6 into contents4 (5^nids archives)
pub fn small_maps(nids: usize, internal: Compression) -> Vec<Logical> {
    let ks = contents4();
    let total = 5usize.pow(nids as u32);
    let mut out = Vec::with_capacity(total);
    let ids: Vec<u64> = if nids >= 7 { IDS7.to_vec() } else { IDS6.iter().take(nids).copied().collect() };
    for mut code in 0..total {
        let mut l = Logical::new(internal);
        for id in ids.iter() {
            let d = code % 5;
            code /= 5;
            if d > 0 {
                l.tiles.insert(*id, ks[d - 1].clone());
            }
        }
        out.push(l);
    }
    out
}

/// id alphabets on encoding boundaries: 1/2/3-byte varint deltas with adjacent pairs, and the u32 edge
pub const IDS_VARINT: [u64; 6] = [127, 128, 129, 16_383, 16_384, 16_385];
pub const IDS_U32: [u64; 6] = [(1 << 32) - 2, (1 << 32) - 1, 1 << 32, (1 << 32) + 1, 1 << 56, LAST - 1];

/// all partial maps of the given ids into the first `ncontents` contents (absent included): (ncontents+1)^ids
pub fn maps_over(ids: &[u64], ncontents: usize, internal: Compression) -> Vec<Logical> {
    let ks = contents4();
    let base = ncontents + 1;
    let total = base.pow(ids.len() as u32);
    let mut out = Vec::with_capacity(total);
    for mut code in 0..total {
        let mut l = Logical::new(internal);
        for id in ids {
            let d = code % base;
            code /= base;
            if d > 0 {
                l.tiles.insert(*id, ks[d - 1].clone());
            }
        }
        out.push(l);
    }
    out
}

pub fn large_contents() -> [Vec<u8>; 3] {
    let l = xorshift_bytes(7, 100 * 1024);
    let mut l1 = l.clone();
    *l1.last_mut().unwrap() ^= 1;
    let mut l2 = l.clone();
    l2[0] ^= 1;
    [l, l1, l2]
}

/// all 4^3 maps of ids {3, 4, 1000} into {absent, L, L', L''}
pub fn large_maps(internal: Compression) -> Vec<Logical> {
    let ls = large_contents();
    let mut out = Vec::new();
    for code in 0..64usize {
        let mut l = Logical::new(internal);
        let mut c = code;
        for id in [3u64, 4, 1000] {
            let d = c % 4;
            c /= 4;
            if d > 0 {
                l.tiles.insert(id, ls[d - 1].clone());
            }
        }
        out.push(l);
    }
    out
}

fn num_f(x: f64) -> Value {
    Value::Number(Number::from_f64(x).expect("finite"))
}

pub fn float_alphabet() -> Vec<f64> {
    let mut v = vec![
        1.0 / 11.0,
        0.1 + 0.2,
        3e-300,
        1.797_693_134_862_315_7e308,
        5e-324,
        2.225_073_858_507_201_4e-308,
        1e21,
        1e-7,
        123_456.789,
        -0.000_123_4,
        1.0 / 3.0,
        2.0 / 3.0,
        std::f64::consts::PI,
        std::f64::consts::E,
        0.3,
        4.35,
        1e23,
        9.007_199_254_740_993e15,
        -1.5,
        3.0,
    ];
    for k in 1..=60 {
        v.push(f64::from(k) * 1.1);
        v.push(1.0 / f64::from(k + 2));
    }
    v
}

/// metadata alphabet M (each a JSON object)
pub fn meta_alphabet() -> Vec<(&'static str, Map<String, Value>)> {
    let mut out: Vec<(&'static str, Map<String, Value>)> = Vec::new();
    out.push(("empty", Map::new()));
    out.push(("small", json!({"name":"x","version":2}).as_object().unwrap().clone()));
    out.push(("nested", json!({"a":{"b":[1,2,{"c":null}],"d":true},"e":[[],{}],"f":false}).as_object().unwrap().clone()));
    let mut m = Map::new();
    m.insert("k\"\\\n\u{1F600}\u{e9}".into(), Value::String("v\u{0000}\t\u{2028}\u{7f}/".into()));
    m.insert("".into(), Value::String("".into()));
    out.push(("unicode-escapes", m));
    // keys (not only values) with every kind of character a JSON writer must escape or may pass through: NUL and other
    // C0 controls, DEL, C1 controls, combining marks (an NFD-spelled word), zero-width space, soft hyphen, line and
    // paragraph separators, a lone BOM, non-BMP characters, and a 3000-byte key
    let mut m = Map::new();
    for k in ["\u{0}", "a\u{0}b", "\u{1}\u{1b}\u{1f}", "\u{7f}", "\u{80}\u{9f}", "cafe\u{301}", "\u{200b}", "\u{ad}", "\u{2028}\u{2029}", "\u{feff}", "\u{10ffff}\u{1f600}", "\u{8}\u{c}\r", "\\u0041", "\\", "/"] {
        m.insert(k.to_string(), Value::String(format!("value of {}", k.escape_unicode())));
    }
    m.insert("k".repeat(3000), json!(1));
    out.push(("unusual-keys", m));
    out.push(("unsorted-keys", json!({"z":1,"a":2,"m":3,"B":4,"aa":5}).as_object().unwrap().clone()));
    let mut m = Map::new();
    m.insert("big".into(), Value::String("0123456789abcdef".repeat(320)));
    out.push(("5KiB-string", m));
    // sizes around the buffer sizes met on the read path (2048 pre-allocation, 4096 codec buffers, 8192 BufReader, 65536)
    for (name, n) in [("2047B-string", 2047 - 8), ("4097B-string", 4097 - 8), ("9KiB-string", 9 * 1024), ("70KiB-string", 70 * 1024)] {
        let mut m = Map::new();
        m.insert("s".into(), Value::String("x".repeat(n)));
        out.push((name, m));
    }
    // text made of 2-, 3- and 4-byte characters (9 bytes per cycle, co-prime with every power-of-two buffer size, and
    // shifted by a 1-byte prefix in the second key): some character straddles every border at which a reader that
    // decodes text piecewise could cut
    for (name, n) in [("multibyte-9KiB", 1024usize), ("multibyte-70KiB", 8 * 1024)] {
        let mut m = Map::new();
        m.insert("d\u{e9}".into(), Value::String("\u{e9}\u{20ac}\u{1F600}".repeat(n)));
        m.insert("e".into(), Value::String(format!("x{}", "\u{1F600}\u{e9}".repeat(n))));
        out.push((name, m));
    }
    let mut m = Map::new();
    for i in 0..700 {
        m.insert(format!("key-{i:04}"), json!({"i": i, "v": [i, i + 1], "s": format!("value {i}")}));
    }
    out.push(("700-keys", m));
    let mut m = Map::new();
    m.insert("umax".into(), json!(u64::MAX));
    m.insert("imin".into(), json!(i64::MIN));
    m.insert("imax".into(), json!(i64::MAX));
    m.insert("zero".into(), json!(0));
    m.insert("neg".into(), json!(-1));
    out.push(("integer-extremes", m));
    let mut m = Map::new();
    for (i, f) in float_alphabet().into_iter().enumerate() {
        m.insert(format!("f{i}"), num_f(f));
    }
    m.insert("arr".into(), Value::Array(float_alphabet().into_iter().take(8).map(num_f).collect()));
    out.push(("floats", m));
    // one float per object as well, so that a single bad value is pinpointed
    out
}

pub fn single_float_metas() -> Vec<Map<String, Value>> {
    float_alphabet()
        .into_iter()
        .map(|f| {
            let mut m = Map::new();
            m.insert("x".into(), num_f(f));
            m
        })
        .collect()
}

pub fn coord_alphabet() -> Vec<f64> {
    let mut v = vec![
        0.0, -0.0, 2.1e-6, 5e-8, 4.9e-8, 5.1e-8, 1e-7, 1.5e-7, 2.5e-7, 180.0, -180.0, 85.0, -85.0, 90.0, -90.0,
        11.154_026, 43.727_012_5, 11.328_939_5, 43.832_545_5, 11.241_482_7, 43.779_779, 179.999_999_95, -179.999_999_95,
        0.1, 0.2, 0.3, 1.0 / 3.0, 12.345_678_9, -12.345_678_95, 100.000_000_05, 33.333_333_35,
    ];
    // values that are stored as k by a truncating and by a rounding writer alike; 6.5 % of the k then do not
    // survive read -> write under truncation (k/1e7 * 1e7 falls just below k)
    for k in 1..=150 {
        v.push((f64::from(k) + 0.3) / 1e7);
        v.push(-(f64::from(k * 7_919 + 3) + 0.3) / 1e7);
    }
    for k in 0..40 {
        v.push((f64::from(k) + 0.5) / 1e7);
        v.push(-(f64::from(k) + 0.5) / 1e7);
        v.push(f64::from(k) * 4.567_890_1);
    }
    v
}

/// settings alphabet S
pub fn settings_alphabet(internal: Compression) -> Vec<Settings> {
    let mut out = Vec::new();
    for tc in ALL_COMP_CODES {
        for tt in TILE_TYPES {
            let mut s = Settings::plain(internal);
            s.tile_compression = tc;
            s.tile_type = tt;
            out.push(s);
        }
    }
    for a in [0u8, 1, 31, 255] {
        for b in [0u8, 1, 31, 255] {
            for c in [0u8, 1, 31, 255] {
                let mut s = Settings::plain(internal);
                s.min_zoom = a;
                s.max_zoom = b;
                s.center_zoom = c;
                out.push(s);
            }
        }
    }
    let cs = coord_alphabet();
    for i in 0..cs.len() {
        let mut s = Settings::plain(internal);
        for j in 0..6 {
            let v = cs[(i + j * 7) % cs.len()];
            // odd slots are latitudes: keep them inside [-90, 90]
            s.coords[j] = if j % 2 == 1 && v.abs() > 90.0 { v / 2.0 } else { v };
        }
        out.push(s);
    }
    out
}

/// scale families: (name, logical)
pub fn scale_family(pattern: u32, n: usize, internal: Compression) -> Logical {
    let mut l = Logical::new(internal);
    for i in 0..n as u64 {
        match pattern {
            // dense ids, runs of 7 identical contents
            0 => {
                let g = i / 7;
                l.tiles.insert(i, format!("run{g}").into_bytes());
            }
            // far apart ids (large deltas, ~11-byte entries): forces leaf spill early
            1 => {
                l.tiles.insert(i * (1u64 << 33) + (i % 3), (i as u32).to_le_bytes().to_vec().into_iter().chain([7u8]).collect());
            }
            // alternating duplicates: no runs, constant back-references
            _ => {
                l.tiles.insert(i, if i % 2 == 0 { b"even-content".to_vec() } else { b"odd".to_vec() });
            }
        }
    }
    l
}
pub const PATTERN_NAMES: [&str; 3] = ["dense-runs", "far-apart", "alternating-duplicates"];

// ---------------------------------------------------------------------------------------------
// window family: entry lists steered so the encoded root lands around (16257, 16384]
// ---------------------------------------------------------------------------------------------
use crate::spec::dir::SEntry;

fn xs(s: &mut u64) -> u64 {
    *s ^= *s >> 12;
    *s ^= *s << 25;
    *s ^= *s >> 27;
    s.wrapping_mul(0x2545_F491_4F6C_DD1D)
}

/// family 0: dense small deltas; 1: far-apart ids (~11-byte entries); 2: mixed runs / back-references.
/// Deterministic in (family, n): the list for n+1 extends the list for n.
pub fn window_entries(family: u32, n: usize) -> Vec<SEntry> {
    let mut s = 0x1234_5678_9ABC_DEF1u64 ^ u64::from(family);
    let mut out: Vec<SEntry> = Vec::with_capacity(n);
    let mut id = 0u64;
    let mut off = 0u64;
    for i in 0..n {
        let r = xs(&mut s);
        match family {
            0 => {
                let len = 1 + (r % 300) as u32;
                out.push(SEntry::new(id, off, len, 1));
                id += 1 + (r >> 20) % 3;
                off += u64::from(len);
            }
            1 => {
                let len = 1 + (r % 300) as u32;
                out.push(SEntry::new(id, off, len, 1));
                id += (1u64 << 30) + ((r >> 16) % (1u64 << 34));
                off += u64::from(len);
            }
            // perfectly regular: consecutive ids, constant length, contiguous offsets (compresses to ~100 bytes)
            3 => {
                out.push(SEntry::new(id, off, 64, 1));
                id += 1;
                off += 64;
            }
            _ => {
                let len = 1 + (r % 200) as u32;
                let run = 1 + ((r >> 12) % 4) as u32;
                // every 5th entry refers back to an earlier content
                if i % 5 == 4 && i > 10 {
                    let j = ((r >> 24) as usize) % (i - 1);
                    out.push(SEntry::new(id, out[j].offset, out[j].length, run));
                } else {
                    out.push(SEntry::new(id, off, len, run));
                    off += u64::from(len);
                }
                id += u64::from(run) + (r >> 40) % 2 + if i % 5 == 3 { 1 } else { 0 };
            }
        }
    }
    out
}

/// logical archive whose written directory is exactly family 0/1 of `window_entries` (unique contents, no runs)
pub fn window_logical(family: u32, n: usize, internal: Compression) -> Logical {
    let es = window_entries(family, n);
    let mut l = Logical::new(internal);
    for (i, e) in es.iter().enumerate() {
        let mut c = (i as u32).to_le_bytes().to_vec();
        c.push(0xFE);
        c.resize((e.length as usize).max(5), (i % 251) as u8);
        l.tiles.insert(e.tile_id, c);
    }
    l
}

/// size in bytes of the library's serialisation of the full list (used only to steer n; not an oracle)
pub fn lib_dir_size(es: &[SEntry], c: Compression) -> usize {
    match super::util::dir_write_sync(es, c) {
        super::util::Out::Ok(b) => b.len(),
        _ => usize::MAX,
    }
}

/// smallest n whose full-list encoding exceeds 16257 bytes (bisection; sizes are monotone up to codec noise)
pub fn crossing(family: u32, c: Compression, make: &dyn Fn(u32, usize) -> Vec<SEntry>) -> usize {
    let mut lo = 1usize;
    let mut hi = 1024usize;
    while lib_dir_size(&make(family, hi), c) <= 16257 {
        lo = hi;
        hi *= 2;
        if hi > 1 << 22 {
            return hi;
        }
    }
    while hi - lo > 1 {
        let mid = (lo + hi) / 2;
        if lib_dir_size(&make(family, mid), c) <= 16257 {
            lo = mid;
        } else {
            hi = mid;
        }
    }
    hi
}

/// entries the writer must produce for a window_logical archive (contents are unique, min length 5)
pub fn window_logical_entries(family: u32, n: usize) -> Vec<SEntry> {
    let es = window_entries(family, n);
    let mut off = 0u64;
    es.iter()
        .map(|e| {
            let len = e.length.max(5);
            let r = SEntry::new(e.tile_id, off, len, 1);
            off += u64::from(len);
            r
        })
        .collect()
}

/// Pairs of different contents of equal length that collide under checksums a dedup table might be tempted to use
/// instead of a real 64-bit hash: CRC-32, Adler-32, FNV-1a 32, byte sum / xor (a permutation), equal first and last
/// 8 bytes of a 24-byte content. Found by deterministic birthday search (about 10^5 candidates each).
pub fn collision_pairs() -> Vec<(&'static str, Vec<u8>, Vec<u8>)> {
    fn birthday(h: &dyn Fn(&[u8]) -> u32, len: usize, seed: u64) -> (Vec<u8>, Vec<u8>) {
        let mut seen: std::collections::HashMap<u32, u64> = std::collections::HashMap::new();
        let msg = |k: u64| -> Vec<u8> {
            let mut x = k.wrapping_mul(0x9E37_79B9_7F4A_7C15) ^ seed;
            (0..len).map(|_| { x ^= x << 13; x ^= x >> 7; x ^= x << 17; (x >> 24) as u8 }).collect()
        };
        for k in 1..5_000_000u64 {
            let m = msg(k);
            if let Some(prev) = seen.insert(h(&m), k) {
                let a = msg(prev);
                if a != m {
                    return (a, m);
                }
            }
        }
        panic!("HARNESS: no collision found");
    }
    let crc = |b: &[u8]| { let mut c = flate2::Crc::new(); c.update(b); c.sum() };
    let adler = |b: &[u8]| { let (mut a, mut s) = (1u32, 0u32); for x in b { a = (a + u32::from(*x)) % 65521; s = (s + a) % 65521; } (s << 16) | a };
    let fnv = |b: &[u8]| b.iter().fold(0x811c_9dc5u32, |h, x| (h ^ u32::from(*x)).wrapping_mul(0x0100_0193));
    let mut out = Vec::new();
    let (a, b) = birthday(&crc, 8, 1);
    out.push(("crc32", a, b));
    let (a, b) = birthday(&crc, 300, 2);
    out.push(("crc32-300-bytes", a, b));
    let (a, b) = birthday(&adler, 12, 3);
    out.push(("adler32", a, b));
    let (a, b) = birthday(&fnv, 8, 4);
    out.push(("fnv1a32", a, b));
    out.push(("byte-sum-and-xor", b"tile-ab".to_vec(), b"tile-ba".to_vec()));
    let mut m1 = xorshift_bytes(9, 24);
    let m0 = m1.clone();
    m1[11] ^= 0x55;
    out.push(("same-ends", m0, m1));
    out
}

//! C16 - output bytes are a canonical function of the archive's logical content.
//! Histories are enumerated statelessly WITHOUT state merging (hash-map iteration order is the
//! suspect), grouped by final logical content; separate OS processes for the cross-process clause.
use super::c01::{corpus, logical_to_json};
use super::c10::{write_with_provenance, Prov, PROVS};
use super::foreign;
use super::gen::*;
use super::hist::*;
use crate::common::{block_on, catch, cname, fnv, COMPS};
use crate::model::*;
use crate::report::Report;
use pmtiles2::{Compression, PMTiles};
use rayon::prelude::*;
use serde_json::{json, Value};
use std::collections::{BTreeMap, BTreeSet};

fn hist_alphabet() -> Alphabet {
    let mut a = Alphabet::new(false);
    a.ids = vec![0, 1, 5];
    a
}

/// run a history from a fresh object and write the result; returns (final model, flavour, bytes)
fn run_history(alpha: &Alphabet, init: usize, hist: &[Op]) -> Result<(Model, Api, Vec<u8>), String> {
    let (live, model) = build(alpha, init, hist, false)?;
    let fl = live.flavour();
    let r = catch(|| live.save());
    match r {
        Ok(Ok(b)) => Ok((model, fl, b)),
        Ok(Err(e)) => Err(e),
        Err(p) => Err(format!("PANIC {p}")),
    }
}

fn rewrite_bytes(b: &[u8], api: Api) -> Result<Vec<u8>, String> {
    let r = catch(|| -> Result<Vec<u8>, String> {
        match api {
            Api::Sync => {
                let pm = PMTiles::from_bytes(b).map_err(|e| format!("open: {e}"))?;
                let mut out = std::io::Cursor::new(Vec::new());
                pm.to_writer(&mut out).map_err(|e| format!("write: {e}"))?;
                Ok(out.into_inner())
            }
            Api::Async => {
                let pm = block_on(PMTiles::from_async_reader(futures::io::Cursor::new(b))).map_err(|e| format!("open: {e}"))?;
                let mut out = futures::io::Cursor::new(Vec::new());
                block_on(pm.to_async_writer(&mut out)).map_err(|e| format!("write: {e}"))?;
                Ok(out.into_inner())
            }
        }
    });
    match r {
        Ok(x) => x,
        Err(p) => Err(format!("PANIC {p}")),
    }
}

fn first_diff(a: &[u8], b: &[u8]) -> String {
    let i = a.iter().zip(b.iter()).position(|(x, y)| x != y).unwrap_or(a.len().min(b.len()));
    format!("lengths {} vs {}, first difference at byte {i}", a.len(), b.len())
}

/// the 66 logical archives of the cross-process clause (many tiles, duplicate contents, multi-key metadata)
pub fn process_corpus() -> Vec<Logical> {
    let mut v = Vec::new();
    for i in 0..64usize {
        let c = COMPS[i % 4];
        let mut l = Logical::new(c);
        let n = 3 + (i * 7) % 90;
        for k in 0..n as u64 {
            let id = k * (1 + (i as u64 % 3)) + if k % 5 == 0 { 1000 } else { 0 };
            l.tiles.insert(id, format!("c{}", (k * 31 + i as u64) % 11).into_bytes());
        }
        for k in 0..(i % 9) {
            l.meta.insert(format!("key{}", (k * 37) % 23), json!([k, format!("v{i}"), {"z": k, "a": i}]));
        }
        l.settings.coords = [i as f64 * 1.000_000_1, -(i as f64) / 3.0, 12.5, 45.000_000_05, 0.1 * i as f64, 2.5e-7 * i as f64];
        v.push(l);
    }
    // archives whose directory spills into several leaf directories (six and three leaves): their leaf section has an
    // order of its own, which must not depend on anything but the content
    v.push(window_logical(0, 21_000, Compression::None));
    v.push(window_logical(1, 9_000, Compression::GZip));
    v
}

/// worker: print one digest line per (archive, writer api)
pub fn worker_digests() -> i32 {
    for (i, l) in process_corpus().iter().enumerate() {
        for api in APIS {
            match write_lib(l, api) {
                Ok(b) => println!("{i} {} {:016x} {}", api.name(), fnv(&b), b.len()),
                Err(e) => println!("{i} {} ERROR {e}", api.name()),
            }
        }
    }
    0
}

pub fn run(tier: &str) -> i32 {
    let rep_t0 = std::time::Instant::now();
    let rep = Report::new("C16", tier, "model_checking");
    let thorough = rep.thorough();
    let maxlen = if thorough { 5 } else { 4 };
    rep.rule(&format!("(a) ALL operation sequences of length <= {maxlen} over add(id in {{0,1,5}}, c in {{AA,BB}}) / remove(id) / save+reopen(sync|async) from fresh sync and async objects, executed without state merging, grouped by (final content, compression, writer flavour): one byte image per group; (b) all 720 [thorough: 5040] insertion orders of 6 [7] tiles; (b2) all 120 insertion orders of 5 metadata keys x nested-key order x remove/re-insert detour; (c) every small map written from memory, from a reopened copy and from a mixed object: identical bytes; (d) 66 archives (two of them with several leaf directories) written in {} separate OS processes, and the two multi-leaf ones six times in this process: identical digests; (d1) async writer: identical bytes into an always-ready sink and into one that is Pending once per call with short writes; (e) rewrite: to_writer(from_bytes(b)) == b for every archive of the C01 corpus, foreign archives idempotent after one normalising rewrite; non-trivial = groups with >= 2 histories", if thorough { 16 } else { 4 }));
    rep.assume("compressed bytes are compared as produced by the same codec configuration within one writer flavour (sync and async writers use different encoders and are never compared with each other)");

    // ---- (a) histories
    let alpha = hist_alphabet();
    let mut ops = alpha.ops();
    ops.retain(|o| !matches!(o, Op::Add(_, c) if *c > 1));
    let inits: Vec<usize> = if thorough { (0..alpha.inits.len()).filter(|i| matches!(alpha.inits[*i], Init::Fresh(..))).collect() } else { vec![0, 1, 2, 3] };
    let mut seqs: Vec<Vec<Op>> = vec![vec![]];
    let mut level: Vec<Vec<Op>> = vec![vec![]];
    for _ in 0..maxlen {
        let mut next = Vec::with_capacity(level.len() * ops.len());
        for s in level.iter() {
            for o in ops.iter() {
                let mut s2 = s.clone();
                s2.push(o.clone());
                next.push(s2);
            }
        }
        seqs.extend(next.iter().cloned());
        level = next;
    }
    let mut states = 0u64;
    let mut groups_multi = 0u64;
    for init in inits.iter() {
        let results: Vec<(usize, Result<(Model, Api, Vec<u8>), String>)> = seqs.par_iter().enumerate().map(|(i, h)| (i, run_history(&alpha, *init, h))).collect();
        let mut groups: BTreeMap<(Vec<(u64, Vec<u8>)>, u8), (usize, u64, Vec<u8>, u64)> = BTreeMap::new();
        for (i, r) in results {
            match r {
                Ok((model, fl, bytes)) => {
                    let key = (model.into_iter().collect::<Vec<_>>(), if fl == Api::Sync { 0u8 } else { 1 });
                    match groups.get_mut(&key) {
                        None => {
                            groups.insert(key, (i, fnv(&bytes), bytes, 1));
                        }
                        Some((first, dg, fb, n)) => {
                            *n += 1;
                            if *dg != fnv(&bytes) || *fb != bytes {
                                let case = json!({"kind":"history-pair","init_index":init,"a":seqs[*first].iter().map(|o| o.to_json(&alpha.contents)).collect::<Vec<_>>(),"b":seqs[i].iter().map(|o| o.to_json(&alpha.contents)).collect::<Vec<_>>()});
                                rep.violation("history-dependent-bytes", format!("two histories reaching the same logical archive serialise differently ({})", first_diff(fb, &bytes)), case);
                            }
                        }
                    }
                }
                Err(e) => rep.violation("history-fails", e, json!({"kind":"history","init_index":init,"ops":seqs[i].iter().map(|o| o.to_json(&alpha.contents)).collect::<Vec<_>>()})),
            }
        }
        states += groups.len() as u64;
        groups_multi += groups.values().filter(|g| g.3 > 1).count() as u64;
        rep.eval(seqs.len() as u64);
    }
    rep.nontrivial(groups_multi);
    rep.count("histories_executed", (seqs.len() * inits.len()) as u64);
    rep.count("history_groups", states);
    rep.count("history_groups_with_several_histories", groups_multi);
    rep.set("states", json!(states));
    rep.set("transitions", json!((seqs.len() * inits.len()) as u64));
    rep.set("traces_validated_against_impl", json!((seqs.len() * inits.len()) as u64));
    rep.force_sample(json!({"kind":"history","ops":seqs[seqs.len() / 3].iter().map(|o| o.to_json(&alpha.contents)).collect::<Vec<_>>()}));

    if std::env::var("VERIF_VERBOSE").is_ok() { println!("  t={:.1}s before // ---- (b) insertion orders", rep_t0.elapsed().as_secs_f64()); }
    // ---- (b) insertion orders
    let ntiles = if thorough { 7 } else { 6 };
    let ids: Vec<u64> = vec![0, 1, 2, 3, 9, 10, 1 << 35][..ntiles].to_vec();
    let mut perms: Vec<Vec<u64>> = Vec::new();
    permute(&mut ids.clone(), 0, &mut perms);
    for c in if thorough { COMPS.to_vec() } else { vec![Compression::None, Compression::GZip] } {
        let mut l = Logical::new(c);
        for (k, id) in ids.iter().enumerate() {
            l.tiles.insert(*id, [b"same".to_vec(), b"same".to_vec(), b"x".to_vec(), b"yy".to_vec(), b"same".to_vec(), b"x".to_vec(), b"zzz".to_vec()][k].clone());
        }
        l.meta = json!({"b":1,"a":{"y":2,"x":3},"c":[3,2,1]}).as_object().unwrap().clone();
        for api in APIS {
            let imgs: Vec<Result<Vec<u8>, String>> = perms.par_iter().map(|p| write_lib_order(&l, api, Some(p))).collect();
            let first = imgs[0].clone();
            for (p, img) in perms.iter().zip(imgs.iter()) {
                if *img != first {
                    rep.violation("insertion-order-dependent-bytes", format!("[{} {}] insertion order {p:?} serialises differently from {:?}", api.name(), cname(c), perms[0]), json!({"kind":"order","order":p,"comp":cname(c),"api":api.name()}));
                    break;
                }
            }
            rep.eval(perms.len() as u64);
            rep.nontrivial(perms.len() as u64);
        }
    }
    rep.count("insertion_orders", perms.len() as u64);

    if std::env::var("VERIF_VERBOSE").is_ok() { println!("  t={:.1}s before // ---- (b2) metadata", rep_t0.elapsed().as_secs_f64()); }
    // ---- (b2) metadata: insertion order of keys (top level and nested) and remove/re-insert detours
    {
        let keys = ["name", "attribution", "bounds", "zz", "a"];
        let mut kperms: Vec<Vec<u64>> = Vec::new();
        permute(&mut (0..keys.len() as u64).collect(), 0, &mut kperms);
        for c in if thorough { COMPS.to_vec() } else { vec![Compression::None, Compression::GZip] } {
            for api in APIS {
                let build = |order: &Vec<u64>, nested_rev: bool, detour: bool| -> Result<Vec<u8>, String> {
                    let mut l = Logical::new(c);
                    l.tiles.insert(1, b"t".to_vec());
                    for k in order.iter() {
                        let k = keys[*k as usize];
                        let mut inner = serde_json::Map::new();
                        let inner_keys: Vec<&str> = if nested_rev { vec!["y", "m", "b"] } else { vec!["b", "m", "y"] };
                        for ik in inner_keys {
                            inner.insert(ik.to_string(), json!(format!("{k}-{ik}")));
                        }
                        l.meta.insert(k.to_string(), json!({"v": k, "o": inner}));
                    }
                    if detour {
                        let v = l.meta.remove("bounds").unwrap();
                        l.meta.insert("bounds".into(), v);
                        l.meta.insert("tmp".into(), json!(1));
                        l.meta.remove("tmp");
                    }
                    write_lib(&l, api)
                };
                let first = build(&kperms[0], false, false);
                let mut n = 0u64;
                for p in kperms.iter() {
                    for (rev, detour) in [(false, false), (true, false), (false, true)] {
                        n += 1;
                        if build(p, rev, detour) != first {
                            rep.violation("metadata-order-dependent-bytes", format!("[{} {}] equal metadata built with key insertion order {:?} (nested reversed: {rev}, remove/re-insert detour: {detour}) serialises differently", api.name(), cname(c), p.iter().map(|i| keys[*i as usize]).collect::<Vec<_>>()), json!({"kind":"meta-order","order":p,"nested_rev":rev,"detour":detour,"comp":cname(c),"api":api.name()}));
                            break;
                        }
                    }
                }
                rep.eval(n);
                rep.nontrivial(n);
                rep.count("metadata_build_orders", n);
            }
        }
    }

    if std::env::var("VERIF_VERBOSE").is_ok() { println!("  t={:.1}s before // ---- (c) provenance", rep_t0.elapsed().as_secs_f64()); }
    // ---- (c) provenance
    let nids = if thorough { 6 } else { 5 };
    let mut items = Vec::new();
    for c in COMPS {
        items.extend(small_maps(nids, c));
    }
    for c in COMPS {
        items.extend(maps_over(&IDS_VARINT, 2, c));
        items.extend(maps_over(&IDS_U32, 2, c));
    }
    // 100 KiB near-duplicates (above every block/buffer size on the hashing and copying paths)
    for c in if thorough { COMPS.to_vec() } else { vec![Compression::None, Compression::ZStd] } {
        items.extend(large_maps(c));
    }
    let bad: Vec<(usize, Api, String)> = items
        .par_iter()
        .enumerate()
        .flat_map_iter(|(i, l)| {
            let mut out = Vec::new();
            for api in APIS {
                if !thorough && api == Api::Async && i % 4 != 0 {
                    continue;
                }
                // brotli quality 11 dominates the cost: quick keeps it to every 4th map
                if !thorough && l.settings.internal == Compression::Brotli && i % 4 != 1 {
                    continue;
                }
                let imgs: Vec<Result<Vec<u8>, String>> = PROVS.iter().map(|p| write_with_provenance(l, *p, api)).collect();
                for (k, img) in imgs.iter().enumerate().skip(1) {
                    if *img != imgs[0] {
                        out.push((i, api, format!("written from {} the archive differs from the one written from memory ({})", PROVS[k].name(), match (&imgs[0], img) { (Ok(a), Ok(b)) => first_diff(a, b), _ => "a write failed".into() })));
                    }
                }
            }
            out
        })
        .collect();
    rep.eval((items.len() * 3) as u64);
    rep.nontrivial(items.iter().filter(|l| l.tiles.len() >= 2).count() as u64);
    rep.count("provenance_triples", items.len() as u64);
    for (i, api, d) in bad {
        rep.violation("provenance-dependent-bytes", format!("[{} {}] {d}", api.name(), cname(items[i].settings.internal)), json!({"kind":"provenance","api":api.name(),"archive":logical_to_json(&items[i])}));
    }

    if std::env::var("VERIF_VERBOSE").is_ok() { println!("  t={:.1}s before // ---- (d) separate OS processes", rep_t0.elapsed().as_secs_f64()); }
    // ---- (d0) the multi-leaf archives written repeatedly in this process (16 worker threads busy around them)
    {
        let pc = process_corpus();
        let jobs: Vec<(usize, Api, usize)> = (64..pc.len()).flat_map(|i| APIS.into_iter().flat_map(move |a| (0..6usize).map(move |r| (i, a, r)))).collect();
        let digests: Vec<(usize, Api, Result<(u64, usize), String>)> = jobs.par_iter().map(|(i, a, _)| (*i, *a, write_lib(&pc[*i], *a).map(|b| (fnv(&b), b.len())))).collect();
        let mut first: BTreeMap<(usize, u8), (u64, usize)> = BTreeMap::new();
        for (i, a, d) in digests {
            match d {
                Ok(d) => {
                    let k = (i, if a == Api::Sync { 0u8 } else { 1 });
                    let f = *first.entry(k).or_insert(d);
                    if f != d {
                        rep.violation("repeated-write-differs", format!("archive {i} of the process corpus ({} writer) written twice in one process gives different bytes (lengths {} and {})", a.name(), f.1, d.1), json!({"kind":"repeated-write","index":i,"api":a.name()}));
                    }
                }
                Err(e) => rep.violation("write-failed/repeated-write", e, json!({"kind":"repeated-write","index":i,"api":a.name()})),
            }
        }
        rep.eval(jobs.len() as u64);
        rep.count("repeated_multi_leaf_writes", jobs.len() as u64);
    }
    // ---- (d1) the async writer's bytes do not depend on how its sink takes them: every archive of the process corpus and
    // every small map over 3 ids written into an always-ready cursor and into a sink that is Pending once per call and
    // takes at most 7 (archives below 600 bytes) or 1000 bytes per write
    {
        let mut subjects = process_corpus();
        for c in COMPS {
            subjects.extend(small_maps(3, c));
        }
        let res: Vec<(usize, Option<String>)> = subjects
            .par_iter()
            .enumerate()
            .map(|(i, l)| {
                let fast = write_lib(l, Api::Async);
                let r = match &fast {
                    Ok(f) => match write_lib_async_slow(l, if f.len() < 600 { 7 } else { 1000 }) {
                        Ok(s) if &s == f => None,
                        Ok(s) => Some(format!("the async writer emits different bytes into a slow sink ({})", first_diff(f, &s))),
                        Err(e) => Some(format!("the async writer fails on a slow sink: {e}")),
                    },
                    Err(e) => Some(format!("write failed: {e}")),
                };
                (i, r)
            })
            .collect();
        rep.eval(subjects.len() as u64 * 2);
        rep.count("async_writes_into_slow_sinks", subjects.len() as u64);
        for (i, r) in res {
            if let Some(d) = r {
                rep.violation("sink-dependent-bytes", d, json!({"kind":"slow-sink","index":i,"archive": if subjects[i].tiles.len() < 10 { logical_to_json(&subjects[i]) } else { json!(format!("process corpus {i}")) }}));
            }
        }
    }
    // ---- (d) separate OS processes
    let nproc = if thorough { 16 } else { 4 };
    let exe = std::env::current_exe().unwrap();
    let outs: Vec<Result<String, String>> = (0..nproc)
        .into_par_iter()
        .map(|_| {
            let o = std::process::Command::new(&exe).args(["worker", "c16-digests"]).output().map_err(|e| e.to_string())?;
            if !o.status.success() {
                return Err(format!("worker exit {:?}", o.status));
            }
            Ok(String::from_utf8_lossy(&o.stdout).to_string())
        })
        .collect();
    let mut distinct: BTreeSet<String> = BTreeSet::new();
    for o in outs.iter() {
        match o {
            Ok(s) => {
                distinct.insert(s.clone());
            }
            Err(e) => {
                println!("MACHINERY: digest worker failed: {e}");
                return 2;
            }
        }
    }
    rep.eval(nproc as u64 * 132);
    rep.nontrivial(132);
    rep.count("processes", nproc as u64);
    if distinct.len() != 1 {
        let v: Vec<&String> = distinct.iter().collect();
        let (a, b) = (v[0], v[1]);
        let line = a.lines().zip(b.lines()).find(|(x, y)| x != y).map(|(x, y)| format!("'{x}' vs '{y}'")).unwrap_or_default();
        rep.violation("process-dependent-bytes", format!("the same archive serialises differently in different processes: {line}"), json!({"kind":"processes"}));
    }
    if outs[0].as_ref().map(|s| s.contains("ERROR")).unwrap_or(false) {
        rep.violation("process-write-fails", "a worker could not write an archive of the process corpus", json!({"kind":"processes"}));
    }

    if std::env::var("VERIF_VERBOSE").is_ok() { println!("  t={:.1}s before // ---- (e) rewrite of just-read archives", rep_t0.elapsed().as_secs_f64()); }
    // ---- (e) rewrite of just-read archives
    for c in corpus(thorough) {
        let fam = c.family;
        let bad: Vec<(usize, Api, String)> = c
            .items
            .par_iter()
            .enumerate()
            .flat_map_iter(|(i, l)| {
                let mut out = Vec::new();
                for api in APIS {
                    if !thorough && api == Api::Async && fam == "small-maps" && i % 4 != 0 {
                        continue;
                    }
                    match write_lib(l, api) {
                        Ok(b) => match rewrite_bytes(&b, api) {
                            Ok(b2) if b2 == b => {}
                            Ok(b2) => out.push((i, api, format!("re-writing the archive that was just read changes the bytes ({})", first_diff(&b, &b2)))),
                            Err(e) => out.push((i, api, e)),
                        },
                        Err(e) => out.push((i, api, e)),
                    }
                }
                out
            })
            .collect();
        rep.eval((c.items.len() * 2) as u64);
        rep.count(&format!("rewrite_{fam}"), c.items.len() as u64);
        for (i, api, d) in bad {
            rep.violation(format!("rewrite-changes-bytes/{fam}"), format!("[{} {}] {d}", api.name(), cname(c.items[i].settings.internal)), json!({"kind":"rewrite","api":api.name(),"archive":logical_to_json(&c.items[i])}));
        }
    }
    if std::env::var("VERIF_VERBOSE").is_ok() { println!("  t={:.1}s before // foreign archives: one normalising rewrite", rep_t0.elapsed().as_secs_f64()); }
    // foreign archives: one normalising rewrite, then stable
    let specs: Vec<foreign::Spec> = foreign::product(false).into_iter().filter(|s| s.n >= 2 && s.gap != 1).step_by(if thorough { 1 } else { 5 }).collect();
    let bad: Vec<(usize, Api, String)> = specs
        .par_iter()
        .enumerate()
        .flat_map_iter(|(i, s)| {
            let f = foreign::build(s);
            let mut out = Vec::new();
            for api in APIS {
                match rewrite_bytes(&f.bytes, api) {
                    Ok(b1) => match rewrite_bytes(&b1, api) {
                        Ok(b2) if b2 == b1 => {}
                        Ok(b2) => out.push((i, api, format!("a normalised foreign archive changes again when re-written ({})", first_diff(&b1, &b2)))),
                        Err(e) => out.push((i, api, e)),
                    },
                    Err(e) => out.push((i, api, e)),
                }
            }
            out
        })
        .collect();
    // a rewritten foreign archive must equal the archive built in memory from the same tiles, metadata and settings
    let bad2: Vec<(usize, Api, String)> = specs
        .par_iter()
        .enumerate()
        .flat_map_iter(|(i, s)| {
            let f = foreign::build(s);
            let mut l = Logical::new(super::util::comp_of_code(s.comp).unwrap());
            for (id, (o, len)) in f.expected.iter() {
                l.tiles.insert(*id, f.bytes[*o as usize..(*o + u64::from(*len)) as usize].to_vec());
            }
            l.meta = foreign::expected_meta(s);
            let h = &f.header;
            l.settings.tile_type = super::util::tt_of_code(h.tile_type).unwrap();
            l.settings.tile_compression = super::util::comp_of_code(h.tile_compression).unwrap();
            l.settings.min_zoom = h.min_zoom;
            l.settings.max_zoom = h.max_zoom;
            l.settings.center_zoom = h.center_zoom;
            for (k, c) in h.coords().iter().enumerate() {
                l.settings.coords[k] = crate::spec::latlng::stored_to_deg(*c);
            }
            let mut out = Vec::new();
            for api in APIS {
                match (rewrite_bytes(&f.bytes, api), write_lib(&l, api)) {
                    (Ok(a), Ok(b)) if a == b => {}
                    (Ok(a), Ok(b)) => out.push((i, api, format!("the re-written foreign archive differs from the same content written from memory ({})", first_diff(&a, &b)))),
                    (Err(e), _) | (_, Err(e)) => out.push((i, api, e)),
                }
            }
            out
        })
        .collect();
    for (i, api, d) in bad2 {
        rep.violation("foreign-rewrite-not-canonical", format!("[{}] {d}", api.name()), specs[i].to_json());
    }
    rep.eval((specs.len() * 4) as u64);
    rep.count("foreign_rewrites", specs.len() as u64);
    for (i, api, d) in bad {
        rep.violation("rewrite-changes-bytes/foreign", format!("[{}] {d}", api.name()), specs[i].to_json());
    }
    rep.finish()
}

fn permute(v: &mut Vec<u64>, k: usize, out: &mut Vec<Vec<u64>>) {
    if k == v.len() {
        out.push(v.clone());
        return;
    }
    for i in k..v.len() {
        v.swap(k, i);
        permute(v, k + 1, out);
        v.swap(k, i);
    }
}

pub fn replay(case: &Value) -> Vec<String> {
    match case["kind"].as_str() {
        Some("slow-sink") => {
            let mut subjects = process_corpus();
            for c in COMPS {
                subjects.extend(small_maps(3, c));
            }
            let l = &subjects[(case["index"].as_u64().unwrap_or(0) as usize).min(subjects.len() - 1)];
            match (write_lib(l, Api::Async), write_lib_async_slow(l, 7), write_lib_async_slow(l, 1000)) {
                (Ok(f), Ok(a), Ok(b)) if f == a && f == b => vec![],
                _ => vec!["the async writer's bytes depend on its sink".to_string()],
            }
        }
        Some("repeated-write") => {
            let pc = process_corpus();
            let i = case["index"].as_u64().unwrap_or(64) as usize;
            let api = if case["api"].as_str() == Some("async") { Api::Async } else { Api::Sync };
            let ds: BTreeSet<Result<u64, String>> = (0..8).into_par_iter().map(|_| write_lib(&pc[i.min(pc.len() - 1)], api).map(|b| fnv(&b))).collect::<Vec<_>>().into_iter().collect();
            if ds.len() > 1 { vec!["the same archive written 8 times gives different bytes".to_string()] } else { vec![] }
        }
        Some("history-pair") => {
            let alpha = hist_alphabet();
            let init = case["init_index"].as_u64().unwrap_or(0) as usize;
            let a: Vec<Op> = case["a"].as_array().map(|x| x.iter().filter_map(Op::from_json).collect()).unwrap_or_default();
            let b: Vec<Op> = case["b"].as_array().map(|x| x.iter().filter_map(Op::from_json).collect()).unwrap_or_default();
            match (run_history(&alpha, init, &a), run_history(&alpha, init, &b)) {
                (Ok(x), Ok(y)) if x.0 == y.0 && x.2 != y.2 => vec![format!("same content, different bytes: {}", first_diff(&x.2, &y.2))],
                (Err(e), _) | (_, Err(e)) => vec![e],
                _ => vec![],
            }
        }
        Some("rewrite") | Some("provenance") => {
            let l = super::c01::logical_from_json(&case["archive"]);
            let api = if case["api"].as_str() == Some("async") { Api::Async } else { Api::Sync };
            let mut out = Vec::new();
            if let Ok(b) = write_lib(&l, api) {
                match rewrite_bytes(&b, api) {
                    Ok(b2) if b2 != b => out.push(format!("rewrite changes bytes: {}", first_diff(&b, &b2))),
                    Err(e) => out.push(e),
                    _ => {}
                }
                for p in [Prov::Backed, Prov::Mixed] {
                    if write_with_provenance(&l, p, api).ok().as_ref() != Some(&b) {
                        out.push(format!("provenance {} changes bytes", p.name()));
                    }
                }
            }
            out
        }
        _ => vec![],
    }
}

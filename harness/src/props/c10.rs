//! C10 - deduplication and run-length encoding are exact and minimal.
//! Archive clauses by E1 over three provenances; in-memory retention clause as an invariant in
//! every state of the E2 search (through the `verif` hook).
use super::c01::{logical_from_json, logical_to_json};
use super::gen::*;
use super::hist::*;
use crate::common::{block_on, catch, cname, COMPS};
use crate::model::*;
use crate::report::Report;
use crate::spec::archive::{encode_foreign, read_archive, Layout, Node};
use crate::spec::dir::SEntry;
use crate::spec::header::SHeader;
use pmtiles2::{Compression, PMTiles};
use rayon::prelude::*;
use serde_json::{json, Value};
use std::collections::{BTreeMap, BTreeSet};

#[derive(Clone, Copy, Debug, PartialEq, Eq)]
pub enum Prov {
    Memory,
    Backed,
    Mixed,
}
impl Prov {
    pub fn name(self) -> &'static str {
        match self {
            Prov::Memory => "memory",
            Prov::Backed => "reader-backed",
            Prov::Mixed => "mixed",
        }
    }
}
pub const PROVS: [Prov; 3] = [Prov::Memory, Prov::Backed, Prov::Mixed];

/// produce the archive bytes for logical `l` with the given provenance of its tiles
pub fn write_with_provenance(l: &Logical, prov: Prov, api: Api) -> Result<Vec<u8>, String> {
    match prov {
        Prov::Memory => write_lib(l, api),
        Prov::Backed => {
            let first = write_lib(l, api)?;
            rewrite_into(first, api, &[], l, true)
        }
        Prov::Mixed => {
            // ids at even positions are written first and stay reader-backed, the others are added in memory
            let mut l1 = l.clone();
            let later: Vec<u64> = l.tiles.keys().copied().enumerate().filter(|(i, _)| i % 2 == 1).map(|(_, k)| k).collect();
            for id in later.iter() {
                l1.tiles.remove(id);
            }
            let first = write_lib(&l1, api)?;
            rewrite(first, api, &later, l)
        }
    }
}

fn rewrite(bytes: Vec<u8>, api: Api, add: &[u64], l: &Logical) -> Result<Vec<u8>, String> {
    rewrite_into(bytes, api, add, l, false)
}

/// `reused_output`: the archive is written over the start of a stream that already holds 6000 bytes of older content
/// (a reused buffer, a file overwritten without truncation); the archive is what lies between 0 and the final position
fn rewrite_into(bytes: Vec<u8>, api: Api, add: &[u64], l: &Logical, reused_output: bool) -> Result<Vec<u8>, String> {
    let old: Vec<u8> = if reused_output { vec![0xEE; 6000] } else { Vec::new() };
    let r = catch(|| -> Result<Vec<u8>, String> {
        match api {
            Api::Sync => {
                let mut pm = PMTiles::from_reader(std::io::Cursor::new(bytes)).map_err(|e| format!("reopen: {e}"))?;
                for id in add {
                    pm.add_tile(*id, l.tiles[id].clone()).map_err(|e| e.to_string())?;
                }
                let mut out = std::io::Cursor::new(old.clone());
                pm.to_writer(&mut out).map_err(|e| format!("rewrite: {e}"))?;
                let end = out.position() as usize;
                let mut b = out.into_inner();
                b.truncate(end.max(127));
                Ok(b)
            }
            Api::Async => {
                let mut pm = block_on(PMTiles::from_async_reader(futures::io::Cursor::new(bytes))).map_err(|e| format!("reopen: {e}"))?;
                for id in add {
                    pm.add_tile(*id, l.tiles[id].clone()).map_err(|e| e.to_string())?;
                }
                let mut out = futures::io::Cursor::new(old.clone());
                block_on(pm.to_async_writer(&mut out)).map_err(|e| format!("rewrite: {e}"))?;
                let end = out.position() as usize;
                let mut b = out.into_inner();
                b.truncate(end.max(127));
                Ok(b)
            }
        }
    });
    match r {
        Ok(x) => x,
        Err(p) => Err(format!("PANIC {p}")),
    }
}

/// the archive-level clauses, judged on the written bytes by the independent reader
pub fn dedup_oracle(tiles: &BTreeMap<u64, Vec<u8>>, bytes: &[u8]) -> Vec<(String, String)> {
    let mut bad = Vec::new();
    let p = match read_archive(bytes, 1 << 22) {
        Ok(p) => p,
        Err(e) => return vec![("unreadable".into(), format!("independent reader fails: {e}"))],
    };
    let distinct: BTreeSet<&Vec<u8>> = tiles.values().collect();
    let want_len: u64 = distinct.iter().map(|c| c.len() as u64).sum();
    if p.header.data_length != want_len {
        bad.push(("data-length".into(), format!("tile data section has {} bytes, distinct contents sum to {}", p.header.data_length, want_len)));
    }
    // equal contents <=> equal offset
    let mut by_content: BTreeMap<&Vec<u8>, (u64, u32)> = BTreeMap::new();
    let mut by_offset: BTreeMap<(u64, u32), &Vec<u8>> = BTreeMap::new();
    for (id, c) in tiles.iter() {
        let Some(ol) = p.tiles.get(id) else {
            bad.push(("missing".into(), format!("id {id} not addressed")));
            continue;
        };
        match by_content.get(c) {
            Some(prev) if prev != ol => bad.push(("duplicate-content".into(), format!("content of id {id} is stored at {ol:?} and also at {prev:?}"))),
            None => {
                by_content.insert(c, *ol);
            }
            _ => {}
        }
        match by_offset.get(ol) {
            Some(prev) if *prev != c => bad.push(("shared-offset".into(), format!("offset {ol:?} is shared by different contents (id {id})"))),
            None => {
                by_offset.insert(*ol, c);
            }
            _ => {}
        }
        match p.tile_bytes(bytes, *id) {
            Some(Ok(b)) if b == c.as_slice() => {}
            _ => bad.push(("bytes".into(), format!("id {id} does not resolve to its content"))),
        }
    }
    if p.tiles.len() != tiles.len() {
        bad.push(("extra-ids".into(), format!("{} ids addressed, {} expected", p.tiles.len(), tiles.len())));
    }
    // no two neighbouring entries could be merged
    for w in p.tile_entries.windows(2) {
        let (a, b) = (w[0], w[1]);
        if a.tile_id + u64::from(a.run_length) == b.tile_id && a.offset == b.offset && a.length == b.length {
            bad.push(("unmerged-run".into(), format!("entries at ids {} and {} are adjacent with identical content but not merged", a.tile_id, b.tile_id)));
        }
    }
    // entry count equals the number of maximal runs of the logical map
    let mut runs = 0u64;
    let mut prev: Option<(u64, &Vec<u8>)> = None;
    for (id, c) in tiles.iter() {
        match prev {
            Some((pid, pc)) if pid + 1 == *id && pc == c => {}
            _ => runs += 1,
        }
        prev = Some((*id, c));
    }
    if p.tile_entries.len() as u64 != runs {
        bad.push(("entry-count".into(), format!("{} tile entries, minimal number of runs is {}", p.tile_entries.len(), runs)));
    }
    // each run covers consecutive ids with identical content
    for e in p.tile_entries.iter() {
        let c0 = tiles.get(&e.tile_id);
        for i in 0..u64::from(e.run_length) {
            if tiles.get(&(e.tile_id + i)) != c0 || c0.is_none() {
                bad.push(("run-content".into(), format!("run at id {} length {} covers ids with differing content", e.tile_id, e.run_length)));
                break;
            }
        }
    }
    bad
}

/// in-memory retention invariant on the hook snapshot
pub fn retention_oracle(v: &mut Visit) -> Vec<(String, String)> {
    let mut bad = Vec::new();
    let s = v.live.snapshot();
    // ids bound to in-memory content, grouped by hash
    let mut by_hash: BTreeMap<u64, Vec<u64>> = BTreeMap::new();
    for (id, h, _) in s.tile_by_id.iter() {
        if let Some(h) = h {
            by_hash.entry(*h).or_default().push(*id);
        }
    }
    let stored: BTreeMap<u64, &Vec<u8>> = s.data_by_hash.iter().map(|(h, d)| (*h, d)).collect();
    // exactly one copy of each content some tile refers to, none that no tile refers to
    for h in by_hash.keys() {
        if !stored.contains_key(h) {
            bad.push(("missing-content".to_string(), format!("ids {:?} refer to content hash {h:x} which is not stored", by_hash[h])));
        }
    }
    for h in stored.keys() {
        if !by_hash.contains_key(h) {
            bad.push(("orphan-content".to_string(), format!("stored content {} is referred to by no tile", crate::report::hex(stored[h]))));
        }
    }
    let distinct_mem: BTreeSet<&Vec<u8>> = s.tile_by_id.iter().filter(|t| t.1.is_some()).filter_map(|t| v.model.get(&t.0)).collect();
    if distinct_mem.len() != s.data_by_hash.len() {
        bad.push(("copies".to_string(), format!("{} contents stored for {} distinct in-memory contents", s.data_by_hash.len(), distinct_mem.len())));
    }
    for (h, ids) in by_hash.iter() {
        if let Some(d) = stored.get(h) {
            for id in ids {
                if v.model.get(id) != Some(*d) {
                    bad.push(("wrong-content".to_string(), format!("id {id} is bound to stored content {} but the map says {:?}", crate::report::hex(d), v.model.get(id).map(|b| crate::report::hex(b)))));
                }
            }
        }
    }
    // reference sets
    let refs: BTreeMap<u64, &Vec<u64>> = s.ids_by_hash.iter().map(|(h, ids)| (*h, ids)).collect();
    for (h, ids) in refs.iter() {
        if ids.is_empty() {
            bad.push(("empty-refset".to_string(), format!("reference set of {h:x} is empty")));
        }
        match by_hash.get(h) {
            Some(want) if want == *ids => {}
            _ => bad.push(("refset".to_string(), format!("reference set of {h:x} is {ids:?}, ids bound to it are {:?}", by_hash.get(h)))),
        }
    }
    for h in by_hash.keys() {
        if !refs.contains_key(h) {
            bad.push(("refset".to_string(), format!("no reference set for {h:x}")));
        }
    }
    bad
}

fn foreign_dupes() -> Vec<(Vec<u8>, BTreeMap<u64, Vec<u8>>)> {
    let mut out = Vec::new();
    for comp in 1..=4u8 {
        // content "XY" stored at offsets 0 and 2; ids 0,1 adjacent with identical content but different offsets
        let root = vec![
            Node::Tile(SEntry::new(0, 0, 2, 1)),
            Node::Tile(SEntry::new(1, 2, 2, 1)),
            Node::Tile(SEntry::new(2, 4, 1, 1)),
            Node::Tile(SEntry::new(7, 2, 2, 2)),
        ];
        let f = encode_foreign(&root, b"XYXYZ", Some(b"{}"), comp, &Layout::default(), SHeader { tile_type: 2, tile_compression: 1, ..SHeader::default() });
        let model = f.expected.iter().map(|(id, (o, l))| (*id, f.bytes[*o as usize..(*o + u64::from(*l)) as usize].to_vec())).collect();
        out.push((f.bytes, model));
    }
    out
}

pub fn run(tier: &str) -> i32 {
    let rep = Report::new("C10", tier, "model_checking");
    let thorough = rep.thorough();
    rep.rule("archive clauses: every small map of the C01 enumeration x 4 compressions x 3 provenances (memory; written+reopened+rewritten; reopened then extended in memory) x {sync,async}, scale families, foreign archives storing one content twice - judged on the written bytes by the independent reader (data length = sum of distinct contents, equal content <=> equal offset, no mergeable neighbours, entry count = number of maximal runs). Retention clause: invariant on the hook snapshot in every state of the C04 search (BFS to fix-point). non-trivial = archives with a duplicate content or a run / states with >=1 in-memory tile");
    rep.assume("64-bit content hashes are assumed collision-free on the explored alphabets (the harness would report a collision as a violation)");

    // ---- archive clauses
    let nids = if thorough { 6 } else { 5 };
    let mut items = Vec::new();
    for c in COMPS {
        items.extend(small_maps(nids, c));
    }
    for c in COMPS {
        items.extend(maps_over(&IDS_VARINT, 2, c));
        items.extend(maps_over(&IDS_U32, 2, c));
    }
    // 100 KiB near-duplicates (above every block/buffer size on the hashing and copying paths)
    for c in if thorough { COMPS.to_vec() } else { vec![Compression::None, Compression::ZStd] } {
        items.extend(large_maps(c));
    }
    // the top of the u64 id space (ids the format cannot address, but that the in-memory object accepts): a run that ends
    // at u64::MAX is still one run. In-memory provenance only - an id of u64::MAX does not survive re-opening.
    let top_first = items.len();
    for c in COMPS {
        items.extend(maps_over(&[u64::MAX - 3, u64::MAX - 2, u64::MAX - 1, u64::MAX], 2, c));
    }
    let res: Vec<(usize, Prov, Api, Vec<(String, String)>)> = items
        .par_iter()
        .enumerate()
        .flat_map_iter(|(i, l)| {
            let mut out = Vec::new();
            for prov in PROVS {
                for api in APIS {
                    if i >= top_first && prov != Prov::Memory {
                        continue;
                    }
                    // async x non-memory provenance only on a third of the maps in quick
                    if !thorough && api == Api::Async && prov != Prov::Memory && i % 3 != 0 {
                        continue;
                    }
                    // brotli quality 11 dominates the cost: quick keeps it to every 4th map
                    if !thorough && l.settings.internal == Compression::Brotli && i % 4 != 1 {
                        continue;
                    }
                    let bad = match write_with_provenance(l, prov, api) {
                        Ok(b) => dedup_oracle(&l.tiles, &b),
                        Err(e) => vec![("write-failed".to_string(), e)],
                    };
                    out.push((i, prov, api, bad));
                }
            }
            out
        })
        .collect();
    rep.eval(res.len() as u64);
    let nt = items
        .iter()
        .filter(|l| {
            let d: BTreeSet<&Vec<u8>> = l.tiles.values().collect();
            d.len() < l.tiles.len()
        })
        .count();
    rep.nontrivial(nt as u64);
    rep.count("small_map_archives_written", res.len() as u64);
    rep.count("small_maps_with_duplicate_content", nt as u64);
    for (i, prov, api, bad) in res {
        for (k, d) in bad {
            rep.violation(format!("archive/{k}/{}", prov.name()), format!("[{} {}] {d}", api.name(), cname(items[i].settings.internal)), json!({"kind":"logical","prov":prov.name(),"api":api.name(),"archive":logical_to_json(&items[i])}));
        }
    }
    // scale families
    let mut jobs = Vec::new();
    for p in 0..3u32 {
        for c in if thorough { COMPS.to_vec() } else { vec![Compression::None, Compression::ZStd] } {
            for prov in PROVS {
                jobs.push((p, if thorough { 5000usize } else { 1500 }, c, prov));
            }
        }
    }
    let res: Vec<_> = jobs
        .par_iter()
        .map(|(p, n, c, prov)| {
            let l = scale_family(*p, *n, *c);
            let bad = match write_with_provenance(&l, *prov, Api::Sync) {
                Ok(b) => dedup_oracle(&l.tiles, &b),
                Err(e) => vec![("write-failed".to_string(), e)],
            };
            (*p, *n, *c, *prov, bad)
        })
        .collect();
    rep.eval(jobs.len() as u64);
    rep.nontrivial(jobs.len() as u64);
    rep.count("scale_archives_written", jobs.len() as u64);
    for (p, n, c, prov, bad) in res {
        for (k, d) in bad.into_iter().take(5) {
            rep.violation(format!("archive/{k}/{}", prov.name()), d, json!({"kind":"scale","pattern":p,"n":n,"comp":cname(c),"prov":prov.name()}));
        }
    }
    // foreign archives holding one content twice: a rewrite must store it once
    let mut nf = 0u64;
    for (bytes, model) in foreign_dupes() {
        for api in APIS {
            let l = Logical { tiles: model.clone(), meta: serde_json::Map::new(), settings: Settings::plain(Compression::None) };
            nf += 1;
            match rewrite(bytes.clone(), api, &[], &l) {
                Ok(b) => {
                    for (k, d) in dedup_oracle(&model, &b) {
                        rep.violation(format!("archive/{k}/foreign-duplicates"), format!("[{}] {d}", api.name()), json!({"kind":"foreign-dupes","api":api.name()}));
                    }
                }
                Err(e) => rep.violation("archive/write-failed/foreign-duplicates", e, json!({"kind":"foreign-dupes","api":api.name()})),
            }
        }
    }
    rep.eval(nf);
    rep.nontrivial(nf);
    rep.count("foreign_duplicate_archives_rewritten", nf);

    // ---- retention clause in every state of the history search
    let alpha = Alphabet::new(thorough);
    let (stats, complete, samples) = explore(
        &alpha,
        &retention_oracle,
        &|k, d, c| rep.violation(format!("retention/{k}"), d, c),
        if thorough { 3_000_000 } else { 400_000 },
    );
    rep.eval(stats.transitions * 2);
    rep.nontrivial(stats.states);
    rep.set("states", json!(stats.states));
    rep.set("transitions", json!(stats.transitions));
    rep.set("traces_validated_against_impl", json!(stats.transitions * 2));
    rep.set("max_depth", json!(stats.max_depth));
    rep.set("fixpoint_reached", json!(complete));
    if !complete {
        rep.not_exhaustive("state cap reached before the fix-point");
    }
    for s in samples.into_iter().take(3) {
        rep.force_sample(s);
    }
    rep.force_sample(logical_to_json(&items[items.len() / 3]));
    rep.finish()
}

pub fn replay(case: &Value) -> Vec<String> {
    match case["kind"].as_str() {
        Some("history") => super::c04::replay_with(case, &retention_oracle),
        Some("foreign-dupes") => {
            let mut out = Vec::new();
            for (bytes, model) in foreign_dupes() {
                for api in APIS {
                    let l = Logical { tiles: model.clone(), meta: serde_json::Map::new(), settings: Settings::plain(Compression::None) };
                    match rewrite(bytes.clone(), api, &[], &l) {
                        Ok(b) => out.extend(dedup_oracle(&model, &b).into_iter().map(|(k, d)| format!("{k}: {d}"))),
                        Err(e) => out.push(e),
                    }
                }
            }
            out
        }
        kind => {
            let prov = PROVS.into_iter().find(|p| Some(p.name()) == case["prov"].as_str()).unwrap_or(Prov::Memory);
            let api = if case["api"].as_str() == Some("async") { Api::Async } else { Api::Sync };
            let l = if kind == Some("scale") {
                scale_family(case["pattern"].as_u64().unwrap_or(0) as u32, case["n"].as_u64().unwrap_or(0) as usize, crate::common::comp_from_name(case["comp"].as_str().unwrap_or("none")))
            } else {
                logical_from_json(&case["archive"])
            };
            match write_with_provenance(&l, prov, api) {
                Ok(b) => dedup_oracle(&l.tiles, &b).into_iter().map(|(k, d)| format!("{k}: {d}")).collect(),
                Err(e) => vec![e],
            }
        }
    }
}

//! C14 - compression helpers are exact inverses for every codec and chunking.
use super::util::*;
use crate::common::{block_on, cname, comp_code, comp_from_name, xorshift_bytes, COMPS};
use crate::report::{brief, hex, unhex, Report};
use crate::spec::{codec, inflate};
use futures::{AsyncReadExt, AsyncWriteExt};
use pmtiles2::util::{compress, compress_all, compress_async, decompress, decompress_all, decompress_async};
use pmtiles2::Compression;
use rayon::prelude::*;
use serde_json::{json, Value};
use std::io::{Read, Write};

/// write `data` through the sync adapter in the given chunk sizes (cyclic), flush, drop; with `flush_each` the
/// writer is also flushed after every chunk (flushing a writer mid-stream must not end or damage the stream)
fn stream_compress_sync(c: Compression, data: &[u8], chunks: &[usize], flush_each: bool) -> Out<Vec<u8>> {
    call(|| {
        let mut out = Vec::new();
        {
            let mut w = compress(c, &mut out)?;
            let mut pos = 0;
            let mut i = 0;
            while pos < data.len() {
                let n = chunks[i % chunks.len()].min(data.len() - pos);
                w.write_all(&data[pos..pos + n])?;
                pos += n;
                i += 1;
                if flush_each {
                    w.flush()?;
                }
            }
            w.flush()?;
        }
        Ok(out)
    })
}
fn stream_compress_async(c: Compression, data: &[u8], chunks: &[usize], flush_each: bool) -> Out<Vec<u8>> {
    call(|| {
        let mut out = Vec::new();
        {
            let mut w = compress_async(c, &mut out)?;
            let mut pos = 0;
            let mut i = 0;
            while pos < data.len() {
                let n = chunks[i % chunks.len()].min(data.len() - pos);
                block_on(w.write_all(&data[pos..pos + n]))?;
                pos += n;
                i += 1;
                if flush_each {
                    block_on(w.flush())?;
                }
            }
            block_on(w.close())?;
        }
        Ok(out)
    })
}
/// the same through a buffering sink (64 KiB BufWriter in front of the destination): sync - write, flush, drop the
/// adapter, drop the BufWriter; async - write, close the adapter, then look at the destination WITHOUT touching the
/// BufWriter again (closing the adapter closes, and therefore flushes, the writer it was given)
fn stream_compress_buffered(c: Compression, data: &[u8], chunk: usize, is_async: bool) -> Out<Vec<u8>> {
    call(|| {
        let mut dest = Vec::new();
        if is_async {
            let mut bw = futures::io::BufWriter::with_capacity(1 << 16, &mut dest);
            {
                let mut w = compress_async(c, &mut bw)?;
                for ch in data.chunks(chunk.max(1)) {
                    block_on(w.write_all(ch))?;
                }
                block_on(w.close())?;
            }
            let seen = bw.get_ref().to_vec();
            drop(bw);
            Ok(seen)
        } else {
            {
                let mut bw = std::io::BufWriter::with_capacity(1 << 16, &mut dest);
                {
                    let mut w = compress(c, &mut bw)?;
                    for ch in data.chunks(chunk.max(1)) {
                        w.write_all(ch)?;
                    }
                    w.flush()?;
                }
            }
            Ok(dest)
        }
    })
}

fn stream_decompress_sync(c: Compression, packed: &[u8], bufsize: usize) -> Out<Vec<u8>> {
    call(|| {
        let mut src = std::io::Cursor::new(packed);
        let mut r = decompress(c, &mut src)?;
        let mut out = Vec::new();
        let mut buf = vec![0u8; bufsize];
        loop {
            // a read into an empty buffer transfers nothing and must not be taken for the end of the stream
            // (the upstream zstd reader reports an error for it: not exercised there)
            if bufsize == 7 && c != Compression::ZStd {
                let z = r.read(&mut [])?;
                if z != 0 {
                    return Err(std::io::Error::other(format!("read into an empty buffer returned {z}")));
                }
            }
            let n = r.read(&mut buf)?;
            if n == 0 {
                break;
            }
            out.extend_from_slice(&buf[..n]);
        }
        Ok(out)
    })
}
/// the async writer adapter over a sink that answers Pending once per call (also during flush and close) and takes at
/// most `max` bytes per write
fn stream_compress_async_slow(c: Compression, data: &[u8], chunk: usize, max: usize) -> Out<Vec<u8>> {
    call(|| {
        let hd = crate::env::Handle::new(Vec::new(), Box::new(crate::env::Uniform { max, pending_each: 1 })).budget(40 * (data.len() / max.clamp(1, 1 << 20) + data.len() / chunk.max(1)) + 20_000, 6 * data.len() + (1 << 20));
        {
            let mut sink = hd.asyn();
            let mut w = compress_async(c, &mut sink)?;
            for ch in data.chunks(chunk.max(1)) {
                block_on(w.write_all(ch))?;
            }
            block_on(w.close())?;
        }
        Ok(hd.data())
    })
}
fn stream_decompress_async(c: Compression, packed: &[u8], bufsize: usize) -> Out<Vec<u8>> {
    call(|| {
        let mut src = futures::io::Cursor::new(packed);
        let mut r = decompress_async(c, &mut src)?;
        let mut out = Vec::new();
        let mut buf = vec![0u8; bufsize];
        loop {
            let n = block_on(r.read(&mut buf))?;
            if n == 0 {
                break;
            }
            out.extend_from_slice(&buf[..n]);
        }
        Ok(out)
    })
}

/// the compressed form must be a standard stream: upstream decoder (strict) and, for gzip, the harness's own gunzip
fn standard_stream(c: Compression, packed: &[u8], data: &[u8]) -> Option<String> {
    match codec::decompress(comp_code(c), packed) {
        Ok(d) if d == data => {}
        Ok(d) => return Some(format!("upstream decoder yields {} instead of {}", brief(&d), brief(data))),
        Err(e) => return Some(format!("upstream decoder rejects the stream: {e}")),
    }
    if c == Compression::GZip {
        match inflate::gunzip(packed) {
            Ok(d) if d == data => {}
            Ok(d) => return Some(format!("independent gunzip yields {}", brief(&d))),
            Err(e) => return Some(format!("independent gunzip rejects the stream: {e}")),
        }
    }
    None
}

/// one input, one codec: one-shot helpers, streaming with the given chunkings, both APIs
pub fn check_input(c: Compression, data: &[u8], chunkings: &[Vec<usize>], bufsizes: &[usize]) -> Vec<(String, String)> {
    check_input_modes(c, data, chunkings, bufsizes, &[false, true])
}

pub fn check_input_modes(c: Compression, data: &[u8], chunkings: &[Vec<usize>], bufsizes: &[usize], flush_modes: &[bool]) -> Vec<(String, String)> {
    let mut bad = Vec::new();
    let n = cname(c);
    // one-shot
    match call(|| compress_all(c, data)) {
        Out::Ok(p) => {
            if let Some(m) = standard_stream(c, &p, data) {
                bad.push((format!("one-shot-stream/{n}"), m));
            }
            match call(|| decompress_all(c, &p)) {
                Out::Ok(d) if d == data => {}
                o => bad.push((format!("one-shot-roundtrip/{n}"), format!("decompress_all(compress_all(x)) = {}", o.describe()))),
            }
            // streaming readers over the one-shot output
            for b in bufsizes {
                for (api, o) in [("sync", stream_decompress_sync(c, &p, *b)), ("async", stream_decompress_async(c, &p, *b))] {
                    match o {
                        Out::Ok(d) if d == data => {}
                        o => bad.push((format!("stream-read/{n}/{api}"), format!("reader drained in {b}-byte reads yields {}", o.describe()))),
                    }
                }
            }
        }
        o => bad.push((format!("one-shot-compress/{n}"), o.describe())),
    }
    // the helpers must also decode what the upstream encoders produce
    let foreign = codec::compress(comp_code(c), data);
    match call(|| decompress_all(c, &foreign)) {
        Out::Ok(d) if d == data => {}
        o => bad.push((format!("decode-upstream/{n}"), format!("decompress_all(upstream stream) = {}", o.describe()))),
    }
    // async streaming writer into a slow sink (Pending once per call, incl. flush and close; short writes)
    for (chunk, max) in [(data.len().max(1), usize::MAX), (5, 3)] {
        if data.len() / chunk > 20_000 || (max == 3 && data.len() > 70_000) {
            continue;
        }
        match stream_compress_async_slow(c, data, chunk, max) {
            Out::Ok(p) => {
                if let Some(m) = standard_stream(c, &p, data) {
                    bad.push((format!("stream-write-slow-sink/{n}/async"), format!("{chunk}-byte chunks into a sink that is Pending once per call (at most {max} bytes per write): {m}")));
                }
            }
            o => bad.push((format!("stream-write-slow-sink-{}/{n}/async", o.kind()), o.describe())),
        }
    }
    // streaming writers into a buffering sink
    for (api, is_async) in [("sync", false), ("async", true)] {
        for chunk in [data.len().max(1), 5] {
            if data.len() / chunk > 20_000 {
                continue;
            }
            match stream_compress_buffered(c, data, chunk, is_async) {
                Out::Ok(p) => {
                    if let Some(m) = standard_stream(c, &p, data) {
                        bad.push((format!("stream-write-buffered-sink/{n}/{api}"), format!("{chunk}-byte chunks into a BufWriter: {} bytes reached the destination: {m}", p.len())));
                    }
                }
                o => bad.push((format!("stream-write-buffered-sink-{}/{n}/{api}", o.kind()), o.describe())),
            }
        }
    }
    // streaming writers
    for ch in chunkings {
        for flush_each in flush_modes.iter().copied() {
            // flushing after every chunk is run for up to 2000 chunks per input (longer sequences only repeat the same
            // writer state and are slow in some codecs); every composition of the short inputs is run both ways
            if flush_each && data.len() / ch[0] > 2000 {
                continue;
            }
            let fl = if flush_each { "+flush-after-each" } else { "" };
            for (api, o) in [("sync", stream_compress_sync(c, data, ch, flush_each)), ("async", stream_compress_async(c, data, ch, flush_each))] {
                match o {
                    Out::Ok(p) => {
                        if let Some(m) = standard_stream(c, &p, data) {
                            bad.push((format!("stream-write{fl}/{n}/{api}"), format!("chunks {:?}: {m}", &ch[..ch.len().min(12)])));
                        }
                        match call(|| decompress_all(c, &p)) {
                            Out::Ok(d) if d == data => {}
                            o => bad.push((format!("stream-write-roundtrip{fl}/{n}/{api}"), format!("chunks {:?}: {}", &ch[..ch.len().min(12)], o.describe()))),
                        }
                    }
                    o => bad.push((format!("stream-write-{}{fl}/{n}/{api}", o.kind()), format!("chunks {:?}: {}", &ch[..ch.len().min(12)], o.describe()))),
                }
            }
        }
    }
    bad
}

/// all compositions of n (ordered ways to split n bytes into chunks)
fn compositions(n: usize) -> Vec<Vec<usize>> {
    if n == 0 {
        return vec![vec![1]];
    }
    let mut out = Vec::new();
    for mask in 0..(1usize << (n - 1)) {
        let mut v = Vec::new();
        let mut cur = 1;
        for i in 0..n - 1 {
            if mask >> i & 1 == 1 {
                v.push(cur);
                cur = 1;
            } else {
                cur += 1;
            }
        }
        v.push(cur);
        out.push(v);
    }
    out
}

pub fn run(tier: &str) -> i32 {
    let rep = Report::new("C14", tier, "exploration");
    let thorough = rep.thorough();
    rep.rule("byte strings: empty, all 256 single bytes, all strings over {00,FF,41} up to length 6, three 12-byte strings, the codecs' magic numbers and header prefixes, real streams of every codec as payload (whole, doubled, cut after 3/4/10 bytes), zeros and a fixed xorshift stream at lengths {4095,4096,4097,65535,65536,2^20+1[,5*2^20]}, the repository's data.json; x 4 codecs x {compress_all/decompress_all, compress writer fed in chunks (with and without a flush after every chunk) + flush + drop, the same into a 64 KiB BufWriter (async: destination inspected right after close) and into a sink that is Pending once per call, decompress reader drained in chunks with interleaved zero-length reads, decompress reader drained in chunks, async twins with close}; ALL write-split compositions for inputs <= 12 bytes, fixed chunk sizes {1,2,7,4096,65537} for long ones; oracle: round trip, upstream crates called directly decode the output with clean end of stream, gzip output also by the harness's own inflate+CRC-32+ISIZE; 'unknown' is an error from all six functions; non-trivial = non-empty inputs");
    rep.assume("harness/src/spec/inflate.rs is the 'unrelated implementation' for gzip");
    let bufs_small = [1usize, 2, 7, 4096];
    // short strings with all compositions
    let mut shorts: Vec<Vec<u8>> = vec![vec![]];
    for b in 0..=255u8 {
        shorts.push(vec![b]);
    }
    for len in 2..=(if thorough { 8usize } else { 6 }) {
        for code in 0..3usize.pow(len as u32) {
            let mut c = code;
            let mut v = Vec::with_capacity(len);
            for _ in 0..len {
                v.push([0x00u8, 0xFF, 0x41][c % 3]);
                c /= 3;
            }
            shorts.push(v);
        }
    }
    let mut twelve: Vec<Vec<u8>> = vec![b"abcdefghijkl".to_vec(), vec![0u8; 12], xorshift_bytes(3, 12)];
    // inputs that look like compressed data: the codecs' magic numbers alone and followed by header bytes, and short
    // prefixes of real streams (a helper that sniffs its input for "already compressed" data meets all of them)
    let magics: [&[u8]; 9] = [&[0x1f, 0x8b], &[0x1f, 0x8b, 0x08], &[0x1f, 0x8b, 0x08, 0, 0, 0, 0, 0, 0, 0xff], &[0x28, 0xb5, 0x2f, 0xfd], &[0x28, 0xb5, 0x2f, 0xfd, 0x20, 0x00, 0x01, 0x00, 0x00], &[0x50, 0x2a, 0x4d, 0x18, 0, 0, 0, 0], &[0x78, 0x9c], &[0x0b, 0x00, 0x80, 0x03], &[0x06]];
    for m in magics {
        twelve.push(m.to_vec());
    }
    // real streams of every codec as payload (nested compression), whole and cut short
    let mut nested: Vec<(String, Vec<u8>)> = Vec::new();
    for k in 1..=4u8 {
        for (pn, plain) in [("empty", Vec::new()), ("x", b"x".to_vec()), ("text", b"hello hello hello hello".to_vec()), ("zeros-5000", vec![0u8; 5000]), ("xorshift-3000", xorshift_bytes(5, 3000))] {
            let packed = codec::compress(k, &plain);
            for cut in [3usize, 4, 10] {
                if packed.len() > cut {
                    nested.push((format!("first-{cut}-bytes-of-{}({pn})", cname(crate::common::comp_from_code(k))), packed[..cut].to_vec()));
                }
            }
            nested.push((format!("{}({pn})", cname(crate::common::comp_from_code(k))), packed.clone()));
            let mut twice = packed.clone();
            twice.extend_from_slice(&packed);
            nested.push((format!("{}({pn})x2", cname(crate::common::comp_from_code(k))), twice));
        }
    }
    nested.sort();
    nested.dedup_by(|a, b| a.1 == b.1);
    let mut jobs: Vec<(Vec<u8>, Compression)> = Vec::new();
    for s in shorts.iter().chain(twelve.iter()) {
        for c in COMPS {
            jobs.push((s.clone(), c));
        }
    }
    let ncomp: u64 = jobs.iter().map(|(s, _)| compositions(s.len()).len() as u64).sum();
    let bad: Vec<(Vec<u8>, Compression, Vec<(String, String)>)> = jobs
        .par_iter()
        .map(|(s, c)| {
            // flush-after-every-chunk for all compositions of inputs up to 4 bytes and of the 10..12-byte inputs
            let modes: &[bool] = if s.len() <= 4 || s.len() >= 8 { &[false, true] } else { &[false] };
            (s.clone(), *c, check_input_modes(*c, s, &compositions(s.len()), &bufs_small, modes))
        })
        .filter(|x| !x.2.is_empty())
        .collect();
    rep.eval(ncomp * 2 + jobs.len() as u64 * 9);
    rep.nontrivial(jobs.len() as u64 - 4);
    rep.count("short_inputs", (shorts.len() + twelve.len()) as u64);
    rep.count("write_split_compositions_executed", ncomp * 2);
    for (s, c, b) in bad {
        for (k, d) in b.into_iter().take(3) {
            rep.violation(k, format!("input {}: {d}", brief(&s)), json!({"kind":"bytes","comp":cname(c),"hex":hex(&s)}));
        }
    }
    // stream-like inputs (nested compression)
    let njobs: Vec<(usize, Compression)> = (0..nested.len()).flat_map(|i| COMPS.into_iter().map(move |c| (i, c))).collect();
    let bad: Vec<(usize, Compression, Vec<(String, String)>)> = njobs
        .par_iter()
        .map(|(i, c)| {
            let d = &nested[*i].1;
            let ch: Vec<Vec<usize>> = if d.len() <= 10 { compositions(d.len()) } else { vec![vec![1], vec![3], vec![4096], vec![2, 1, 5000]] };
            (*i, *c, check_input(*c, d, &ch, &bufs_small))
        })
        .filter(|x| !x.2.is_empty())
        .collect();
    rep.eval(njobs.len() as u64 * 20);
    rep.nontrivial(njobs.len() as u64);
    rep.count("stream_like_inputs", nested.len() as u64);
    for (i, c, b) in bad {
        for (k, d) in b.into_iter().take(3) {
            rep.violation(k, format!("input {}: {d}", nested[i].0), json!({"kind":"bytes","comp":cname(c),"hex":hex(&nested[i].1)}));
        }
    }
    // long inputs with fixed chunk sizes
    let mut lens = vec![4095usize, 4096, 4097, 65_535, 65_536, (1 << 20) + 1];
    if thorough {
        lens.push(5 << 20);
    }
    let mut longs: Vec<(String, Vec<u8>)> = Vec::new();
    for l in lens.iter() {
        longs.push((format!("zeros-{l}"), vec![0u8; *l]));
        longs.push((format!("xorshift-{l}"), xorshift_bytes(99, *l)));
    }
    if let Ok(d) = std::fs::read("/repo/test/compress/data.json") {
        longs.push(("data.json".into(), d));
    }
    let chunkings: Vec<Vec<usize>> = vec![vec![1], vec![2], vec![7], vec![4096], vec![65_537], vec![1, 4096, 3, 70_000]];
    let mut jobs2: Vec<(usize, Compression)> = Vec::new();
    for (i, (_, d)) in longs.iter().enumerate() {
        for c in COMPS {
            // brotli quality 11 on megabytes is only run in the thorough tier
            if c == Compression::Brotli && !thorough && d.len() > 70_000 {
                continue;
            }
            jobs2.push((i, c));
        }
    }
    let bad: Vec<(usize, Compression, Vec<(String, String)>)> = jobs2
        .par_iter()
        .map(|(i, c)| {
            let d = &longs[*i].1;
            // 1- and 2-byte chunks on megabytes are too slow to be useful: keep them up to 70 KB
            let ch: Vec<Vec<usize>> = chunkings.iter().filter(|x| d.len() <= 70_000 || x[0] >= 7).cloned().collect();
            let bufs: Vec<usize> = if d.len() <= 70_000 { vec![1, 2, 7, 4096, 65_537] } else { vec![7, 4096, 65_537] };
            (*i, *c, check_input(*c, d, &ch, &bufs))
        })
        .filter(|x| !x.2.is_empty())
        .collect();
    rep.eval(jobs2.len() as u64 * 20);
    rep.nontrivial(jobs2.len() as u64);
    rep.count("long_input_x_codec", jobs2.len() as u64);
    for (i, c, b) in bad {
        for (k, d) in b.into_iter().take(3) {
            rep.violation(k, format!("input {}: {d}", longs[i].0), json!({"kind":"long","name":longs[i].0,"comp":cname(c)}));
        }
    }
    // unknown compression
    let unk = Compression::Unknown;
    let six: [(&str, bool); 6] = [
        ("compress_all", call(|| compress_all(unk, b"x")).is_err()),
        ("decompress_all", call(|| decompress_all(unk, b"x")).is_err()),
        ("compress", call(|| { let mut o = Vec::new(); compress(unk, &mut o).map(|_| ()) }).is_err()),
        ("decompress", call(|| { let mut i = std::io::Cursor::new(vec![1u8]); decompress(unk, &mut i).map(|_| ()) }).is_err()),
        ("compress_async", call(|| { let mut o = Vec::new(); compress_async(unk, &mut o).map(|_| ()) }).is_err()),
        ("decompress_async", call(|| { let mut i = futures::io::Cursor::new(vec![1u8]); decompress_async(unk, &mut i).map(|_| ()) }).is_err()),
    ];
    for (name, refused) in six {
        rep.eval(1);
        if !refused {
            rep.violation(format!("unknown-accepted/{name}"), format!("{name}(Compression::Unknown, ..) is not an error"), json!({"kind":"unknown","fn":name}));
        }
    }
    rep.force_sample(json!({"kind":"bytes","hex":"00ff4100ff41","comp":"gzip","chunks":"all 32 compositions"}));
    rep.force_sample(json!({"kind":"long","name":"xorshift-65536","comp":"zstd","chunks":[1,2,7,4096,65537]}));
    rep.finish()
}

pub fn replay(case: &Value) -> Vec<String> {
    let c = comp_from_name(case["comp"].as_str().unwrap_or("none"));
    match case["kind"].as_str() {
        Some("bytes") => {
            let d = unhex(case["hex"].as_str().unwrap_or(""));
            let ch = if d.len() <= 12 { compositions(d.len()) } else { vec![vec![1], vec![3], vec![4096], vec![2, 1, 5000]] };
            check_input(c, &d, &ch, &[1, 2, 7, 4096]).into_iter().map(|(k, d)| format!("{k}: {d}")).collect()
        }
        Some("long") => {
            let name = case["name"].as_str().unwrap_or("");
            let d = if name == "data.json" {
                std::fs::read("/repo/test/compress/data.json").unwrap_or_default()
            } else {
                let l: usize = name.rsplit('-').next().and_then(|s| s.parse().ok()).unwrap_or(0);
                if name.starts_with("zeros") { vec![0u8; l] } else { xorshift_bytes(99, l) }
            };
            check_input(c, &d, &[vec![7], vec![4096], vec![65_537]], &[7, 4096]).into_iter().map(|(k, d)| format!("{k}: {d}")).collect()
        }
        _ => vec![],
    }
}

//! C09 - header encoding is exactly 127 bytes and lossless in both directions.
use super::util::*;
use crate::report::{hex, unhex, Report};
use crate::spec::header::SHeader;
use crate::spec::latlng::{nearest_e7, stored_to_deg};
use pmtiles2::Header;
use rayon::prelude::*;
use serde_json::{json, Value};

const GOLD: u32 = 0x9E37_79B1;

fn base_header() -> SHeader {
    SHeader {
        root_offset: 127,
        root_length: 25,
        meta_offset: 152,
        meta_length: 10,
        leaf_offset: 162,
        leaf_length: 0,
        data_offset: 162,
        data_length: 1000,
        n_addressed: 5,
        n_entries: 4,
        n_contents: 3,
        clustered: 1,
        internal_compression: 2,
        tile_compression: 1,
        tile_type: 2,
        min_zoom: 1,
        max_zoom: 9,
        center_zoom: 4,
        ..SHeader::default()
    }
}

fn with_coords(v: u32) -> SHeader {
    let mut h = base_header();
    let f = |j: u32| v.wrapping_add(j.wrapping_mul(GOLD)) as i32;
    h.min_lon = f(0);
    h.min_lat = f(1);
    h.max_lon = f(2);
    h.max_lat = f(3);
    h.center_lon = f(4);
    h.center_lat = f(5);
    h
}

/// decode -> encode on raw bytes; returns complaint (key, detail)
fn decode_encode(bytes: &[u8; 127], do_async: bool) -> Option<(String, String)> {
    match header_read_sync(bytes) {
        Out::Ok((h, used)) => {
            if used != 127 {
                return Some(("consumed/sync".into(), format!("reader consumed {used} bytes")));
            }
            // the decoded field is the f64 nearest to k * 1e-7 (one correctly rounded division): it is the value a caller
            // supplies for that multiple of 1e-7, so "serialise, then parse" returns equal field values only if this holds
            let got = [h.min_pos.longitude, h.min_pos.latitude, h.max_pos.longitude, h.max_pos.latitude, h.center_pos.longitude, h.center_pos.latitude];
            for (j, off) in [102usize, 106, 110, 114, 119, 123].into_iter().enumerate() {
                let k = i32::from_le_bytes(bytes[off..off + 4].try_into().unwrap());
                let want = stored_to_deg(k);
                if got[j].to_bits() != want.to_bits() && !(k == 0 && got[j] == 0.0) {
                    return Some(("decoded-value/sync".into(), format!("stored coordinate {k} (field at byte {off}) decodes to {:e} (bits {:016x}); the f64 nearest to {k}e-7 is {want:e} (bits {:016x})", got[j], got[j].to_bits(), want.to_bits())));
                }
            }
            match header_write_sync(&h) {
                Out::Ok(b) => {
                    if b.as_slice() != bytes.as_slice() {
                        return Some(("decode-encode/sync".into(), diff_desc(bytes, &b)));
                    }
                }
                o => return Some((format!("decode-encode-{}/sync", o.kind()), o.describe())),
            }
            if do_async {
                match header_write_async(&h) {
                    Out::Ok(b) => {
                        if b.as_slice() != bytes.as_slice() {
                            return Some(("decode-encode/async".into(), diff_desc(bytes, &b)));
                        }
                    }
                    o => return Some((format!("decode-encode-{}/async", o.kind()), o.describe())),
                }
            }
            None
        }
        o => Some((format!("decode-{}/sync", o.kind()), format!("valid header rejected: {}", o.describe()))),
    }
}

fn diff_desc(a: &[u8], b: &[u8]) -> String {
    if a.len() != b.len() {
        return format!("re-encoded header has {} bytes", b.len());
    }
    let names = [(102, "min_lon"), (106, "min_lat"), (110, "max_lon"), (114, "max_lat"), (119, "center_lon"), (123, "center_lat")];
    for (o, n) in names {
        let x = i32::from_le_bytes(a[o..o + 4].try_into().unwrap());
        let y = i32::from_le_bytes(b[o..o + 4].try_into().unwrap());
        if x != y {
            return format!("stored {n} = {x} re-encoded as {y}");
        }
    }
    let i = a.iter().zip(b.iter()).position(|(x, y)| x != y).unwrap_or(0);
    format!("byte {i}: {:02x} re-encoded as {:02x}", a[i], b[i])
}

/// degrees -> stored for one f64 through one field (min longitude) and both writers
fn deg_to_stored(x: f64, do_async: bool) -> Option<(String, String)> {
    let Some((lo, hi)) = nearest_e7(x) else { return None };
    if lo < i64::from(i32::MIN) || hi > i64::from(i32::MAX) {
        return None;
    }
    let mut h = lib_header_from(&base_header()).unwrap();
    h.min_pos.longitude = x;
    h.center_pos.latitude = x;
    let check = |o: Out<Vec<u8>>, api: &str| -> Option<(String, String)> {
        match o {
            Out::Ok(b) => {
                if b.len() != 127 {
                    return Some((format!("size/{api}"), format!("header serialises to {} bytes", b.len())));
                }
                for off in [102usize, 123] {
                    let k = i64::from(i32::from_le_bytes(b[off..off + 4].try_into().unwrap()));
                    if k != lo && k != hi {
                        return Some((
                            format!("deg-to-stored/{api}"),
                            format!("{x:e} (bits {:016x}) stored as {k}, exact nearest multiple of 1e-7 is {lo}{}", x.to_bits(), if hi != lo { format!(" or {hi}") } else { String::new() }),
                        ));
                    }
                }
                None
            }
            o => Some((format!("write-{}/{api}", o.kind()), o.describe())),
        }
    };
    if let Some(v) = check(header_write_sync(&h), "sync") {
        return Some(v);
    }
    if do_async {
        if let Some(v) = check(header_write_async(&h), "async") {
            return Some(v);
        }
    }
    None
}

fn ulp_neighbours(x: f64) -> Vec<f64> {
    let mut v = vec![x];
    let b = x.to_bits();
    for d in 1..=2u64 {
        v.push(f64::from_bits(b.wrapping_add(d)));
        if b & 0x7fff_ffff_ffff_ffff >= d {
            v.push(f64::from_bits(b - d));
        }
    }
    v
}

fn degree_inputs(k: i64) -> Vec<f64> {
    let kf = k as f64;
    let mut out = Vec::new();
    for base in [kf / 1e7, (kf + 0.5) / 1e7, (kf + 0.25) / 1e7, (kf - 0.5) / 1e7] {
        for x in ulp_neighbours(base) {
            out.push(x);
            out.push(-x);
        }
    }
    out
}

pub fn run(tier: &str) -> i32 {
    let rep = Report::new("C09", tier, "exploration");
    let thorough = rep.thorough();
    rep.rule("(i) decode->encode over stored coordinate values v (six fields hold v+j*0x9E3779B1): quick |v|<=2^17, stride 4099, boundaries; thorough all 2^32; each decoded field must be bit-identical to the f64 nearest to v*1e-7 and the re-encoded bytes identical; (ii) degrees->stored for fl(k/1e7), fl((k+-1/2)/1e7), fl((k+1/4)/1e7) +-2ulp, both signs, dyadic ties; (ii') every subset of the numeric fields (and, thorough, of the flag/enum bytes) set to zero; (iii) one-hot and boundary values in each u64 field; (iv) every code 0..255 in enum/clustered/version bytes, magic perturbations; (v) every truncation 0..126 and trailing bytes; sync and async (async also over sinks/sources that are Pending once per call and move at most 50 / 127 / 64 / 1 bytes); non-trivial = distinct header images / distinct f64 inputs");
    rep.assume("hand-written little-endian codec in harness/src/spec/header.rs is the trusted reference");

    // ---------------- (i) decode -> encode
    let mut vs: Vec<u32> = Vec::new();
    if !thorough {
        for v in -(1i64 << 17)..=(1i64 << 17) {
            vs.push(v as i32 as u32);
        }
        let mut v: i64 = i64::from(i32::MIN);
        while v <= i64::from(i32::MAX) {
            vs.push(v as i32 as u32);
            v += 4099;
        }
        for c in [900_000_000i64, 1_800_000_000, i64::from(i32::MAX), i64::from(i32::MIN), 850_000_000] {
            for d in -2..=2i64 {
                for s in [1i64, -1] {
                    let x = s * c + d;
                    if x >= i64::from(i32::MIN) && x <= i64::from(i32::MAX) {
                        vs.push(x as i32 as u32);
                    }
                }
            }
        }
        vs.sort_unstable();
        vs.dedup();
        let bad: Vec<(u32, (String, String))> = vs
            .par_iter()
            .filter_map(|v| decode_encode(&with_coords(*v).encode(), true).map(|b| (*v, b)))
            .collect();
        rep.eval(vs.len() as u64);
        rep.nontrivial(vs.len() as u64);
        rep.count("decode_encode_headers", vs.len() as u64);
        rep.count("decode_encode_failures", bad.len() as u64);
        for (v, (k, d)) in bad.into_iter().take(200) {
            rep.violation(k, d, json!({"kind":"bytes","hex":hex(&with_coords(v).encode())}));
        }
    } else {
        // all 2^32 counter values, in 2^16 chunks of 2^16
        let res: Vec<(u64, Option<(u32, (String, String))>)> = (0u32..=0xFFFF)
            .into_par_iter()
            .map(|hi| {
                let mut fails = 0u64;
                let mut first = None;
                for lo in 0u32..=0xFFFF {
                    let v = (hi << 16) | lo;
                    // async writer path on a 1/64 slice (it shares write_lat_lon; differs only in to_bytes vs bitvec)
                    if let Some(b) = decode_encode(&with_coords(v).encode(), lo % 64 == 0) {
                        fails += 1;
                        if first.is_none() {
                            first = Some((v, b));
                        }
                    }
                }
                (fails, first)
            })
            .collect();
        let total: u64 = 1u64 << 32;
        rep.eval(total);
        rep.nontrivial(total);
        rep.count("decode_encode_headers", total);
        rep.count("decode_encode_failures", res.iter().map(|r| r.0).sum());
        rep.set("stored_values_per_field_covered", json!("all 2^32"));
        for (_, f) in res.into_iter().filter(|r| r.1.is_some()).take(50) {
            let (v, (k, d)) = f.unwrap();
            rep.violation(k, d, json!({"kind":"bytes","hex":hex(&with_coords(v).encode())}));
        }
    }

    // ---------------- (ii) degrees -> stored
    let mut ks: Vec<i64> = Vec::new();
    for k in -300i64..=300 {
        ks.push(k);
    }
    for c in [900_000_000i64, 1_800_000_000, 850_000_000, 1_799_999_999, 2_147_483_000] {
        for d in -3..=3 {
            ks.push(c + d);
        }
    }
    let stride: i64 = if thorough { 1_009 } else { 104_729 };
    let mut k = 0i64;
    while k <= 1_800_000_000 {
        ks.push(k);
        k += stride;
    }
    ks.sort_unstable();
    ks.dedup();
    let mut inputs: Vec<f64> = ks.par_iter().flat_map_iter(|k| degree_inputs(*k)).collect();
    // exact dyadic ties: m/256 * 1e7 = m * 39062.5
    for m in 0..=46_080i64 {
        let x = m as f64 / 256.0;
        inputs.push(x);
        inputs.push(-x);
    }
    let mut bits: Vec<u64> = inputs.iter().map(|x| x.to_bits()).collect();
    bits.sort_unstable();
    bits.dedup();
    let ties = bits.iter().filter(|b| matches!(nearest_e7(f64::from_bits(**b)), Some((a, c)) if a != c)).count();
    let bad: Vec<(u64, (String, String))> = bits
        .par_iter()
        .enumerate()
        .filter_map(|(i, b)| deg_to_stored(f64::from_bits(*b), i % 16 == 0).map(|x| (*b, x)))
        .collect();
    rep.eval(bits.len() as u64);
    rep.nontrivial(bits.len() as u64);
    rep.count("degree_inputs", bits.len() as u64);
    rep.count("degree_inputs_exact_ties", ties as u64);
    rep.count("degree_failures", bad.len() as u64);
    for (b, (k, d)) in bad.into_iter().take(200) {
        rep.violation(k, d, json!({"kind":"degrees","bits":format!("{b:016x}")}));
    }

    // ---------------- (ii') zero patterns: every subset of the numeric fields set to 0 (a reader or writer that treats a
    // *combination* of zero fields as "unset" and fills in something else is only visible on such a conjunction);
    // non-zero values are pairwise different and not symmetric around 0. quick: all 2^20 subsets of the 11 u64 fields,
    // 3 zooms and 6 coordinates with the flag/enum bytes non-zero, plus all 2^13 subsets of flag/enum bytes, zooms
    // and coordinates; thorough: all 2^24 subsets
    {
        let zero_pattern = |mask: u32| -> SHeader {
            let z = |bit: u32| mask >> bit & 1 == 1;
            let u = |bit: u32, v: u64| if z(bit) { 0 } else { v };
            let i = |bit: u32, v: i32| if z(bit) { 0 } else { v };
            let b = |bit: u32, v: u8| if z(bit) { 0 } else { v };
            SHeader {
                root_offset: u(0, 127), root_length: u(1, 25), meta_offset: u(2, 152), meta_length: u(3, 10), leaf_offset: u(4, 162), leaf_length: u(5, 7),
                data_offset: u(6, 169), data_length: u(7, 1000), n_addressed: u(8, 5), n_entries: u(9, 4), n_contents: u(10, 3),
                min_zoom: b(11, 2), max_zoom: b(12, 9), center_zoom: b(13, 4),
                min_lon: i(14, 111_540_260), min_lat: i(15, 437_270_125), max_lon: i(16, 113_289_395), max_lat: i(17, 438_325_455), center_lon: i(18, 112_000_001), center_lat: i(19, -437_700_003),
                clustered: b(20, 1), internal_compression: b(21, 2), tile_compression: b(22, 1), tile_type: b(23, 2),
            }
        };
        let masks: Vec<u32> = if thorough {
            (0u32..1 << 24).collect()
        } else {
            (0u32..1 << 20).chain((0u32..1 << 13).map(|m| (m & 0x1ff) << 11 | (m >> 9) << 20)).collect()
        };
        let bad: Vec<(u32, (String, String))> = masks
            .par_iter()
            .filter_map(|m| {
                let sh = zero_pattern(*m);
                if let Some((k, d)) = decode_encode(&sh.encode(), m % 64 == 0) {
                    return Some((*m, (format!("zero-pattern/{k}"), d)));
                }
                // the field-by-field comparison through all writers and readers (incl. the slow async ones) on every
                // 8th pattern and on every pattern of at most three zero fields or at most three non-zero fields
                if m % 8 != 0 && m.count_ones() > 3 && m.count_ones() < 17 {
                    return None;
                }
                both_ways(&sh).into_iter().next().map(|(k, d)| (*m, (format!("zero-pattern/{k}"), d)))
            })
            .collect();
        rep.eval(masks.len() as u64);
        rep.nontrivial(masks.len() as u64);
        rep.count("zero_pattern_headers", masks.len() as u64);
        for (m, (k, d)) in bad.into_iter().take(50) {
            rep.violation(k, format!("fields set to zero: mask {m:#x}: {d}"), json!({"kind":"bytes","hex":hex(&zero_pattern(m).encode())}));
        }
    }

    // ---------------- (iii) u64 fields
    let mut n3 = 0u64;
    let specials = [0u64, 1, 127, (1 << 32) - 1, 1 << 32, 1 << 63, u64::MAX];
    for field in 0..11usize {
        let mut vals: Vec<u64> = (0..64).map(|i| 1u64 << i).collect();
        vals.extend_from_slice(&specials);
        for v in vals {
            let mut s = base_header();
            {
                let f: [&mut u64; 11] = [
                    &mut s.root_offset, &mut s.root_length, &mut s.meta_offset, &mut s.meta_length, &mut s.leaf_offset,
                    &mut s.leaf_length, &mut s.data_offset, &mut s.data_length, &mut s.n_addressed, &mut s.n_entries, &mut s.n_contents,
                ];
                *f.into_iter().nth(field).unwrap() = v;
            }
            n3 += 1;
            for (k, d) in both_ways(&s) {
                rep.violation(format!("u64-field{field}/{k}"), d, json!({"kind":"bytes","hex":hex(&s.encode())}));
            }
        }
    }
    // zoom bytes
    for field in 0..3 {
        for v in 0..=255u8 {
            let mut s = base_header();
            match field {
                0 => s.min_zoom = v,
                1 => s.max_zoom = v,
                _ => s.center_zoom = v,
            }
            n3 += 1;
            for (k, d) in both_ways(&s) {
                rep.violation(format!("zoom-field{field}/{k}"), d, json!({"kind":"bytes","hex":hex(&s.encode())}));
            }
        }
    }
    rep.eval(n3);
    rep.nontrivial(n3);
    rep.count("u64_and_zoom_field_cases", n3);

    // ---------------- (iv) enum / clustered / version / magic bytes
    let mut n4 = 0u64;
    let mut rejected = 0u64;
    for (off, name, max_valid) in [(97usize, "internal_compression", 4u8), (98, "tile_compression", 4), (99, "tile_type", 5)] {
        for code in 0..=255u8 {
            let mut b = base_header().encode();
            b[off] = code;
            n4 += 1;
            for (api, r) in [("sync", header_read_sync(&b)), ("async", header_read_async(&b))] {
                if code <= max_valid {
                    match r {
                        Out::Ok((h, _)) => {
                            let s = SHeader::decode(&b).unwrap();
                            let d = header_diff(&h, &s);
                            if !d.is_empty() {
                                rep.violation(format!("enum-value/{name}/{api}"), format!("code {code}: fields differ {d:?}"), json!({"kind":"bytes","hex":hex(&b)}));
                            }
                        }
                        o => rep.violation(format!("enum-valid-rejected/{name}/{api}"), format!("code {code}: {}", o.describe()), json!({"kind":"bytes","hex":hex(&b)})),
                    }
                } else {
                    match r {
                        Out::Err(_) => rejected += 1,
                        o => rep.violation(format!("enum-unknown-accepted/{name}/{api}"), format!("unknown code {code}: {}", o.kind()), json!({"kind":"bytes","hex":hex(&b)})),
                    }
                }
            }
        }
    }
    for v in 0..=255u8 {
        let mut b = base_header().encode();
        b[7] = v;
        n4 += 1;
        for (api, r) in [("sync", header_read_sync(&b)), ("async", header_read_async(&b))] {
            match (v == 3, r) {
                (true, Out::Ok(_)) => {}
                (false, Out::Err(_)) => rejected += 1,
                (_, o) => rep.violation(format!("version/{api}"), format!("version byte {v}: {}", o.kind()), json!({"kind":"bytes","hex":hex(&b)})),
            }
        }
        // clustered byte: 0/1 are valid; other values must at least not panic
        let mut b = base_header().encode();
        b[96] = v;
        n4 += 1;
        for (api, r) in [("sync", header_read_sync(&b)), ("async", header_read_async(&b))] {
            match (v <= 1, r) {
                (true, Out::Ok((h, _))) => {
                    if h.clustered != (v == 1) {
                        rep.violation(format!("clustered/{api}"), format!("byte {v} parsed as {}", h.clustered), json!({"kind":"bytes","hex":hex(&b)}));
                    }
                }
                (false, Out::Err(_)) => {}
                (false, Out::Ok((h, _))) => {
                    // a byte other than 0/1 may be refused; if it is accepted, encoding must still be lossless
                    match header_write_sync(&h) {
                        Out::Ok(back) if back.as_slice() == b.as_slice() => {}
                        o => rep.violation(format!("clustered-accepted-not-reproduced/{api}"), format!("header with clustered byte {v} is accepted but serialises back as {}", match o { Out::Ok(x) => format!("byte {}", x.get(96).copied().unwrap_or(0)), other => other.kind().to_string() }), json!({"kind":"bytes","hex":hex(&b)})),
                    }
                }
                (_, o) => rep.violation(format!("clustered-{}/{api}", o.kind()), format!("clustered byte {v}: {}", o.describe()), json!({"kind":"bytes","hex":hex(&b)})),
            }
        }
    }
    for i in 0..7usize {
        for v in [0u8, 0xFF, base_header().encode()[i] ^ 1, base_header().encode()[i] ^ 0x20] {
            let mut b = base_header().encode();
            b[i] = v;
            n4 += 1;
            for (api, r) in [("sync", header_read_sync(&b)), ("async", header_read_async(&b))] {
                match r {
                    Out::Err(_) => rejected += 1,
                    o => rep.violation(format!("magic/{api}"), format!("magic byte {i} = {v:02x}: {}", o.kind()), json!({"kind":"bytes","hex":hex(&b)})),
                }
            }
        }
    }
    rep.eval(n4);
    rep.nontrivial(n4);
    rep.count("enum_version_magic_cases", n4);
    rep.count("invalid_headers_rejected", rejected);

    // ---------------- (v) truncation and trailing bytes
    let full = with_coords(123_456_789).encode();
    let mut n5 = 0u64;
    for len in 0..127usize {
        n5 += 1;
        for (api, r) in [("sync", header_read_sync(&full[..len])), ("async", header_read_async(&full[..len]))] {
            match r {
                Out::Err(_) => {}
                o => rep.violation(format!("truncation/{api}"), format!("{len}-byte input: {}", o.kind()), json!({"kind":"bytes","hex":hex(&full[..len])})),
            }
        }
        match call(|| Header::from_bytes(&full[..len])) {
            Out::Err(_) => {}
            o => rep.violation("truncation/from_bytes", format!("{len}-byte input: {}", o.kind()), json!({"kind":"bytes","hex":hex(&full[..len])})),
        }
    }
    for extra in [0usize, 1, 100] {
        let mut b = full.to_vec();
        b.extend(std::iter::repeat(0xAB).take(extra));
        n5 += 1;
        for (api, r) in [("sync", header_read_sync(&b)), ("async", header_read_async(&b))] {
            match r {
                Out::Ok((h, used)) => {
                    if used != 127 {
                        rep.violation(format!("consumed/{api}"), format!("reader consumed {used} bytes of {}", b.len()), json!({"kind":"bytes","hex":hex(&b)}));
                    }
                    let d = header_diff(&h, &SHeader::decode(&b).unwrap());
                    if !d.is_empty() {
                        rep.violation(format!("decode-fields/{api}"), format!("fields differ: {d:?}"), json!({"kind":"bytes","hex":hex(&b)}));
                    }
                }
                o => rep.violation(format!("decode-{}/{api}", o.kind()), o.describe(), json!({"kind":"bytes","hex":hex(&b)})),
            }
        }
    }
    rep.eval(n5);
    rep.nontrivial(n5);
    rep.count("truncation_and_trailing_cases", n5);

    rep.force_sample(json!({"kind":"bytes","hex":hex(&with_coords(21).encode())}));
    rep.force_sample(json!({"kind":"degrees","value":2.1e-6,"bits":format!("{:016x}", 2.1e-6f64.to_bits())}));
    rep.finish()
}

/// struct -> bytes equals spec encoding (both writers); bytes -> struct equals fields (both readers)
fn both_ways(s: &SHeader) -> Vec<(String, String)> {
    let mut bad = Vec::new();
    let want = s.encode();
    let Some(h) = lib_header_from(s) else { return bad };
    for (api, o) in [("sync", header_write_sync(&h)), ("async", header_write_async(&h)), ("async-slow-sink-50", header_write_async_slow(&h, 50)), ("async-slow-sink-127", header_write_async_slow(&h, 127))] {
        match o {
            Out::Ok(b) => {
                if b.len() != 127 {
                    bad.push((format!("size/{api}"), format!("{} bytes", b.len())));
                } else if b.as_slice() != want.as_slice() {
                    bad.push((format!("encode/{api}"), diff_desc(&want, &b)));
                }
            }
            o => bad.push((format!("encode-{}/{api}", o.kind()), o.describe())),
        }
    }
    for (api, o) in [("sync", header_read_sync(&want)), ("async", header_read_async(&want)), ("async-slow-source-64", header_read_async_slow(&want, 64)), ("async-slow-source-1", header_read_async_slow(&want, 1))] {
        match o {
            Out::Ok((h2, used)) => {
                let d = header_diff(&h2, s);
                if !d.is_empty() {
                    bad.push((format!("decode/{api}"), format!("fields differ: {d:?}")));
                }
                if used != 127 {
                    bad.push((format!("consumed/{api}"), format!("{used} bytes consumed")));
                }
            }
            o => bad.push((format!("decode-{}/{api}", o.kind()), o.describe())),
        }
    }
    bad
}

pub fn replay(case: &Value) -> Vec<String> {
    let mut out = Vec::new();
    match case["kind"].as_str() {
        Some("degrees") => {
            let b = u64::from_str_radix(case["bits"].as_str().unwrap_or("0"), 16).unwrap_or(0);
            if let Some((k, d)) = deg_to_stored(f64::from_bits(b), true) {
                out.push(format!("{k}: {d}"));
            }
        }
        _ => {
            let b = unhex(case["hex"].as_str().unwrap_or(""));
            match SHeader::decode(&b) {
                Ok(s) if b.len() == 127 => {
                    let arr: [u8; 127] = b.clone().try_into().unwrap();
                    if let Some((k, d)) = decode_encode(&arr, true) {
                        out.push(format!("{k}: {d}"));
                    }
                    for (k, d) in both_ways(&s) {
                        out.push(format!("{k}: {d}"));
                    }
                }
                _ => {
                    // invalid input: must be rejected without panic
                    for (api, r) in [("sync", header_read_sync(&b)), ("async", header_read_async(&b))] {
                        if !r.is_err() && (b.len() < 127 || SHeader::decode(&b).is_err()) && !(b.len() >= 127 && b[96] > 1 && r.is_ok()) {
                            out.push(format!("invalid header not rejected by {api}: {}", r.kind()));
                        }
                    }
                }
            }
        }
    }
    let _ = stored_to_deg(0);
    out
}

//! C11 - range-filtered opening equals full opening restricted to the range.
use super::foreign::{self, Offs, Shape, Spec};
use super::gen::*;
use super::util::*;
use crate::common::{block_on, catch, cname};
use crate::model::*;
use crate::report::Report;
use crate::spec::archive::read_archive;
use pmtiles2::util::{read_directories, read_directories_async};
use pmtiles2::{Compression, PMTiles};
use rayon::prelude::*;
use serde_json::{json, Value};
use std::collections::{BTreeMap, BTreeSet};
use std::ops::{Bound, RangeBounds};

type B = Bound<u64>;

fn bname(b: &B) -> String {
    match b {
        Bound::Included(v) => format!("Included({v})"),
        Bound::Excluded(v) => format!("Excluded({v})"),
        Bound::Unbounded => "Unbounded".into(),
    }
}
fn bjson(b: &B) -> Value {
    match b {
        Bound::Included(v) => json!(["in", v.to_string()]),
        Bound::Excluded(v) => json!(["ex", v.to_string()]),
        Bound::Unbounded => json!(["un", "0"]),
    }
}
fn bfrom(v: &Value) -> B {
    let x: u64 = v[1].as_str().and_then(|s| s.parse().ok()).unwrap_or(0);
    match v[0].as_str() {
        Some("in") => Bound::Included(x),
        Some("ex") => Bound::Excluded(x),
        _ => Bound::Unbounded,
    }
}

pub struct Subject {
    pub name: String,
    pub bytes: Vec<u8>,
    /// full content as the spec reader sees it: id -> bytes
    pub full: BTreeMap<u64, Vec<u8>>,
    pub endpoints: Vec<u64>,
    pub leaf_first_ids: Vec<u64>,
    pub desc: Value,
}

fn subject_from_bytes(name: &str, bytes: Vec<u8>, desc: Value, max_endpoints: usize) -> Subject {
    let p = read_archive(&bytes, 1 << 22).expect("HARNESS: subject archive must be readable by the spec reader");
    let full: BTreeMap<u64, Vec<u8>> = p.tiles.keys().map(|id| (*id, p.tile_bytes(&bytes, *id).unwrap().unwrap().to_vec())).collect();
    let mut v: BTreeSet<u64> = BTreeSet::new();
    for x in [0u64, 1, u64::MAX - 1, u64::MAX] {
        v.insert(x);
    }
    let mut leaf_first_ids = Vec::new();
    for d in p.dirs.iter().filter(|d| d.depth > 0) {
        if let Some(e) = d.entries.first() {
            leaf_first_ids.push(e.tile_id);
        }
    }
    // leaf pointers as written in the parent directories (may differ from the leaf's first entry in foreign archives)
    for d in p.dirs.iter() {
        for e in d.entries.iter().filter(|e| e.run_length == 0) {
            leaf_first_ids.push(e.tile_id);
        }
    }
    leaf_first_ids.sort_unstable();
    leaf_first_ids.dedup();
    let mut structural: Vec<u64> = Vec::new();
    for id in leaf_first_ids.iter() {
        structural.extend([id.wrapping_sub(1), *id, id + 1]);
    }
    let mut run_points: Vec<u64> = Vec::new();
    for e in p.tile_entries.iter() {
        let end = e.tile_id + u64::from(e.run_length) - 1;
        run_points.extend([e.tile_id.wrapping_sub(1), e.tile_id, e.tile_id + 1, end.wrapping_sub(1), end, end + 1]);
    }
    if let Some(m) = full.keys().last() {
        structural.extend([m - 1, *m, m + 1]);
    }
    // distances of exactly 2^32 (and around) between an entry and a range bound
    for e in p.tile_entries.iter().take(2).chain(p.tile_entries.iter().rev().take(1)) {
        for d in [1u64 << 32, (1u64 << 32) + u64::from(e.run_length) - 1, (1u64 << 32) + u64::from(e.run_length)] {
            if let Some(x) = e.tile_id.checked_add(d) {
                structural.push(x);
            }
            if e.tile_id >= d {
                structural.push(e.tile_id - d);
            }
        }
    }
    // keep the endpoint set bounded for big archives: leaf boundaries first, then run boundaries spread evenly
    let budget = max_endpoints.saturating_sub(v.len());
    let mut take = |src: &Vec<u64>, budget: usize, v: &mut BTreeSet<u64>| {
        if src.len() <= budget {
            v.extend(src.iter().copied());
        } else {
            let step = src.len().div_ceil(budget.max(1));
            v.extend(src.iter().step_by(step).copied());
        }
    };
    take(&structural, budget * 2 / 3, &mut v);
    let remaining = max_endpoints.saturating_sub(v.len());
    take(&run_points, remaining, &mut v);
    Subject { name: name.to_string(), bytes, full, endpoints: v.into_iter().collect(), leaf_first_ids, desc }
}

/// Subject whose reference content is the library's own *full* open (the property compares the partial open with
/// it): used for irregular archives - an id covered by more than one entry - that the spec reader does not accept.
fn subject_from_lib_open(name: &str, bytes: Vec<u8>, desc: Value, endpoints: Vec<u64>) -> Subject {
    let mut pm = PMTiles::from_bytes(bytes.as_slice()).expect("HARNESS: irregular subject must open fully");
    let mut ids: Vec<u64> = pm.tile_ids().into_iter().copied().collect();
    ids.sort_unstable();
    let full: BTreeMap<u64, Vec<u8>> = ids.iter().map(|id| (*id, pm.get_tile_by_id(*id).expect("HARNESS: full open must serve its tiles").expect("listed tile"))).collect();
    Subject { name: name.to_string(), bytes, full, endpoints, leaf_first_ids: Vec::new(), desc }
}

/// archives in which one id is covered by more than one entry (not spec-valid, but they open): the same id listed
/// twice, an entry overriding an id inside an earlier run, ids repeated across leaf directories
fn irregular_subjects() -> Vec<Subject> {
    use crate::spec::archive::{encode_foreign, Layout, Node};
    use crate::spec::dir::SEntry;
    use crate::spec::header::SHeader;
    let data: Vec<u8> = (0..=255u8).map(|i| b'a' + i % 26).collect();
    let t = |id: u64, off: u64, len: u32, run: u32| Node::Tile(SEntry::new(id, off, len, run));
    let trees: Vec<(&str, Vec<Node>)> = vec![
        ("same-id-twice", vec![t(1, 0, 2, 1), t(3, 2, 3, 1), t(3, 5, 4, 1), t(9, 9, 1, 1)]),
        ("override-inside-run", vec![t(0, 0, 2, 6), t(2, 2, 3, 1), t(4, 5, 4, 2), t(15, 9, 5, 1), t(15, 14, 6, 1)]),
        ("across-leaves", vec![Node::Leaf(0, vec![t(0, 0, 2, 4), t(15, 2, 5, 1)]), Node::Leaf(2, vec![t(2, 7, 3, 1), t(10, 10, 2, 3)]), Node::Leaf(15, vec![t(15, 12, 6, 1), t(16, 18, 2, 1)])]),
        // more than 20 entries collected per open (sorting routines switch algorithm there): two leaves of 32 entries
        // each addressing the same ids with different bytes, and one flat directory listing 24 ids twice
        ("two-leaves-of-32-same-ids", vec![Node::Leaf(0, (0..32u64).map(|k| t(k, k, 1 + (k % 3) as u32, 1)).collect()), Node::Leaf(0, (0..32u64).map(|k| t(k, 100 + 2 * k, 2, 1)).collect())]),
        ("flat-24-ids-twice", (0..24u64).flat_map(|k| [t(k, k, 2, 1), t(k, 120 + 3 * k, 3, 1)]).collect()),
        ("later-leaf-lower-ids", vec![Node::Leaf(10, vec![t(10, 0, 2, 3), t(20, 2, 2, 1)]), Node::Leaf(11, vec![t(11, 4, 3, 1), t(12, 7, 3, 1), t(20, 10, 4, 1)])]),
    ];
    let mut out = Vec::new();
    for (i, (name, root)) in trees.into_iter().enumerate() {
        let comp = [1u8, 2, 4, 3][i % 4];
        let f = encode_foreign(&root, &data, Some(b"{}"), comp, &Layout::default(), SHeader { tile_type: 2, tile_compression: 1, ..SHeader::default() });
        let mut endpoints: Vec<u64> = if name.contains("32") || name.contains("24") { (0..=33).step_by(3).chain([1, 23, 24, 31, 32]).collect() } else { (0..=22).collect() };
        endpoints.extend([u64::MAX - 1, u64::MAX]);
        out.push(subject_from_lib_open(&format!("irregular-{name}"), f.bytes, json!({"irregular":name,"comp":comp}), endpoints));
    }
    out
}

pub fn subjects(thorough: bool) -> Vec<Subject> {
    let mut out = Vec::new();
    // library-written
    let ks = contents4();
    let mut l = Logical::new(Compression::GZip);
    for (i, id) in [0u64, 1, 2, 4, 5, 9, 10, 300].iter().enumerate() {
        l.tiles.insert(*id, ks[i % 2].clone());
    }
    out.push(subject_from_bytes("lib-small-gzip", write_lib(&l, Api::Sync).unwrap(), json!({"lib":"small","comp":"gzip"}), if thorough { 90 } else { 40 }));
    let l = scale_family(0, 60, Compression::None);
    out.push(subject_from_bytes("lib-runs-none", write_lib(&l, Api::Async).unwrap(), json!({"lib":"runs","comp":"none"}), if thorough { 90 } else { 40 }));
    let n = crossing(1, Compression::None, &window_logical_entries) + 30;
    let l = window_logical(1, n, Compression::None);
    out.push(subject_from_bytes("lib-leaf-spill-none", write_lib(&l, Api::Sync).unwrap(), json!({"lib":"window","family":1,"n":n,"comp":"none"}), if thorough { 40 } else { 24 }));
    // library-written with several leaves at the default leaf size (more than 2 x 4096 entries)
    let l = window_logical(0, 9000, Compression::None);
    out.push(subject_from_bytes("lib-three-leaves-none", write_lib(&l, Api::Sync).unwrap(), json!({"lib":"window","family":0,"n":9000,"comp":"none"}), if thorough { 30 } else { 18 }));
    // foreign
    let specs = [
        Spec { order: 0, gap: 0, root_gap: false, shape: Shape::Leaves, run: 3, offs: Offs::Contiguous, n: 7, meta: 1, comp: 1, base: 0, hv: 0, level_order: false, cv: 0 },
        Spec { order: 3, gap: 13, root_gap: true, shape: Shape::Depth3, run: 2, offs: Offs::BackRefs, n: 7, meta: 2, comp: 2, base: 1, hv: 1, level_order: false, cv: 0 },
        Spec { order: 5, gap: 1, root_gap: false, shape: Shape::Mixed, run: 3, offs: Offs::Overlapping, n: 7, meta: 0, comp: 4, base: 5, hv: 2, level_order: false, cv: 0 },
        Spec { order: 1, gap: 0, root_gap: false, shape: Shape::Depth3, run: 1, offs: Offs::Descending, n: 7, meta: 1, comp: 3, base: 1 << 40, hv: 3, level_order: false, cv: 0 },
        Spec { order: 2, gap: 0, root_gap: false, shape: Shape::RootOnly, run: 2, offs: Offs::Contiguous, n: 3, meta: 1, comp: 1, base: 0, hv: 0, level_order: false, cv: 0 },
    ];
    for (i, s) in specs.iter().enumerate() {
        out.push(subject_from_bytes(&format!("foreign-{i}-{:?}", s.shape), foreign::build(s).bytes, s.to_json(), if thorough { 90 } else { 40 }));
    }
    // more than 16 tiles whose bytes are nested in one another (the tile that starts last ends first), flat and in leaves
    for (i, shape) in [Shape::RootOnly, Shape::Leaves].into_iter().enumerate() {
        let s = Spec { order: i, gap: i, root_gap: false, shape, run: 1, offs: Offs::Nested, n: 40, meta: 1, comp: 1 + i as u8, base: 3, hv: 0, level_order: false, cv: 0 };
        out.push(subject_from_bytes(&format!("foreign-nested-40-{shape:?}"), foreign::build(&s).bytes, s.to_json(), if thorough { 60 } else { 30 }));
    }
    // ids beyond the last tile of zoom 31 (not tile ids of the format, but archives holding them open), in leaves: an
    // explicit end bound up there and no end bound at all must select the same tiles
    {
        let s = Spec { order: 0, gap: 0, root_gap: false, shape: Shape::Leaves, run: 2, offs: Offs::Contiguous, n: 7, meta: 1, comp: 2, base: LAST + 11, hv: 0, level_order: false, cv: 0 };
        out.push(subject_from_bytes("foreign-ids-beyond-zoom-31-Leaves", foreign::build(&s).bytes, s.to_json(), if thorough { 90 } else { 40 }));
    }
    out.extend(irregular_subjects());
    // foreign with a leaf pointer id below its first entry and a run ending at u64::MAX-ish ids excluded: ids near zero
    out.push(subject_from_bytes(
        "foreign-pointer-below-first",
        {
            use crate::spec::archive::{encode_foreign, Layout, Node};
            use crate::spec::dir::SEntry;
            use crate::spec::header::SHeader;
            let root = vec![
                Node::Leaf(0, vec![Node::Tile(SEntry::new(2, 0, 2, 2)), Node::Tile(SEntry::new(6, 2, 2, 1))]),
                Node::Leaf(7, vec![Node::Tile(SEntry::new(7, 0, 2, 3)), Node::Tile(SEntry::new(20, 2, 2, 1))]),
            ];
            encode_foreign(&root, b"AABB", Some(b"{}"), 2, &Layout::default(), SHeader { tile_type: 2, tile_compression: 1, ..SHeader::default() }).bytes
        },
        json!({"foreign":"pointer-below-first"}),
        40,
    ));
    out
}

fn all_bounds(v: &[u64]) -> Vec<B> {
    let mut out = vec![Bound::Unbounded];
    for x in v {
        out.push(Bound::Included(*x));
        out.push(Bound::Excluded(*x));
    }
    out
}

const WAYS: [&str; 5] = ["from_bytes_partially", "from_reader_partially", "from_async_reader_partially", "read_directories", "read_directories_async"];

/// one range on one subject through all five entry points
pub fn check_range(s: &Subject, lo: B, hi: B, max_lookups: usize) -> Vec<(String, String)> {
    let mut bad = Vec::new();
    let range = (lo, hi);
    let want: BTreeMap<u64, &Vec<u8>> = s.full.iter().filter(|(id, _)| range.contains(*id)).map(|(id, c)| (*id, c)).collect();
    let want_ids: Vec<u64> = want.keys().copied().collect();
    let rname = format!("({}, {})", bname(&lo), bname(&hi));
    // lookups: ids inside (bounded) plus structural ids outside
    let mut probe: Vec<u64> = want_ids.iter().copied().take(max_lookups).collect();
    probe.extend(want_ids.iter().rev().copied().take(4));
    probe.extend(s.endpoints.iter().copied());
    probe.sort_unstable();
    probe.dedup();
    let judge_view = |name: &str, r: Result<Result<View, String>, String>, bad: &mut Vec<(String, String)>| match r {
        Ok(Ok(v)) => {
            if v.ids != want_ids {
                let missing: Vec<&u64> = want_ids.iter().filter(|i| !v.ids.contains(i)).take(5).collect();
                let extra: Vec<&u64> = v.ids.iter().filter(|i| !want.contains_key(i)).take(5).collect();
                bad.push((format!("ids/{name}"), format!("range {rname}: {} ids loaded, {} expected; missing {missing:?} extra {extra:?}", v.ids.len(), want_ids.len())));
            }
            if v.num_tiles != want_ids.len() {
                bad.push((format!("count/{name}"), format!("range {rname}: num_tiles {} != {}", v.num_tiles, want_ids.len())));
            }
            for (id, got) in v.tiles.iter() {
                match (want.get(id), got) {
                    (Some(w), Ok(Some(g))) if *w == g => {}
                    (None, Ok(None)) => {}
                    (w, g) => bad.push((format!("bytes/{name}"), format!("range {rname}: tile {id} expected {:?} got {:?}", w.map(|b| crate::report::brief(b)), g.as_ref().map(|o| o.as_ref().map(|b| crate::report::brief(b)))))),
                }
            }
        }
        Ok(Err(e)) => bad.push((format!("fails/{name}"), format!("range {rname}: partial open fails although the full open succeeds: {e}"))),
        Err(p) => bad.push((format!("panic/{name}"), format!("range {rname}: {p}"))),
    };
    judge_view(WAYS[0], catch(|| PMTiles::from_bytes_partially(s.bytes.as_slice(), range).map(|mut pm| view_sync(&mut pm, &probe)).map_err(|e| e.to_string())), &mut bad);
    judge_view(WAYS[1], catch(|| PMTiles::from_reader_partially(std::io::Cursor::new(s.bytes.as_slice()), range).map(|mut pm| view_sync(&mut pm, &probe)).map_err(|e| e.to_string())), &mut bad);
    judge_view(WAYS[2], catch(|| block_on(PMTiles::from_async_reader_partially(futures::io::Cursor::new(s.bytes.as_slice()), range)).map(|mut pm| view_async(&mut pm, &probe)).map_err(|e| e.to_string())), &mut bad);
    // utilities
    let p = crate::spec::header::SHeader::decode(&s.bytes).unwrap();
    let comp = comp_of_code(p.internal_compression).unwrap();
    let r1 = call(|| {
        let mut c = std::io::Cursor::new(s.bytes.as_slice());
        read_directories(&mut c, comp, (p.root_offset, p.root_length), p.leaf_offset, range)
    });
    let r2 = call(|| {
        let mut c = futures::io::Cursor::new(s.bytes.as_slice());
        block_on(read_directories_async(&mut c, comp, (p.root_offset, p.root_length), p.leaf_offset, range))
    });
    for (name, r) in [(WAYS[3], r1), (WAYS[4], r2)] {
        match r {
            Out::Ok(m) => {
                let mut got: Vec<u64> = m.keys().copied().collect();
                got.sort_unstable();
                if got != want_ids {
                    bad.push((format!("ids/{name}"), format!("range {rname}: {} ids, {} expected", got.len(), want_ids.len())));
                }
                for (id, ol) in m.iter() {
                    if let Some(w) = want.get(id) {
                        let a = (p.data_offset + ol.offset) as usize;
                        if s.bytes.get(a..a + ol.length as usize) != Some(w.as_slice()) {
                            bad.push((format!("bytes/{name}"), format!("range {rname}: id {id} maps to other bytes")));
                        }
                    }
                }
            }
            Out::Err(e) => bad.push((format!("fails/{name}"), format!("range {rname}: {e}"))),
            Out::Panic(pn) => bad.push((format!("panic/{name}"), format!("range {rname}: {pn}"))),
        }
    }
    bad
}

pub fn run(tier: &str) -> i32 {
    let rep = Report::new("C11", tier, "exploration");
    let thorough = rep.thorough();
    rep.rule("for each of 19 archives (4 library-written incl. leaf directories, 8 foreign with depth 2-3, runs straddling leaf boundaries, 40 tiles with nested byte extents, a pointer id below its leaf's first entry; 6 irregular ones in which an id is covered by several entries - reference = the library's own full open): endpoint set V = {0,1,u64::MAX-1,u64::MAX, every leaf first id -1/0/+1, run starts/ends -1/0/+1, max id +-1, entry ids +- 2^32 (+ run length)}; ALL pairs (Included|Excluded|Unbounded)(v) x (Included|Excluded|Unbounded)(v) incl. empty and inverted ranges, through from_bytes_partially, from_reader_partially, from_async_reader_partially, util::read_directories(_async); oracle = full content (spec reader) filtered by RangeBounds::contains; non-trivial = ranges selecting a proper non-empty subset");
    rep.assume("build has overflow checks on, as debug builds of users do");
    let subs = subjects(thorough);
    let mut total = 0u64;
    for s in subs.iter() {
        let bounds = all_bounds(&s.endpoints);
        let pairs: Vec<(B, B)> = bounds.iter().flat_map(|a| bounds.iter().map(move |b| (*a, *b))).collect();
        let big = s.full.len() > 500;
        let res: Vec<((B, B), Vec<(String, String)>)> = pairs.par_iter().map(|(a, b)| ((*a, *b), check_range(s, *a, *b, if big { 24 } else { 200 }))).collect();
        total += pairs.len() as u64;
        let proper = pairs.iter().filter(|r| { let n = s.full.keys().filter(|id| r.contains(*id)).count(); n > 0 && n < s.full.len() }).count();
        rep.eval(pairs.len() as u64 * 5);
        rep.nontrivial(proper as u64);
        rep.count(&format!("ranges_{}", s.name), pairs.len() as u64);
        rep.count("endpoints_total", s.endpoints.len() as u64);
        rep.count("leaf_first_ids_used_as_endpoints", s.leaf_first_ids.iter().filter(|i| s.endpoints.contains(i)).count() as u64);
        for ((a, b), bad) in res {
            for (k, d) in bad {
                rep.violation(k, format!("[{}] {d}", s.name), json!({"kind":"range","subject":s.name,"lo":bjson(&a),"hi":bjson(&b)}));
            }
        }
        rep.force_sample(json!({"subject":s.name,"archive":s.desc,"tiles":s.full.len(),"endpoints":s.endpoints.iter().map(|e| e.to_string()).collect::<Vec<_>>(),"example_range":"(Excluded(v_i), Included(v_j)) for all i,j"}));
    }
    rep.count("ranges_total", total);
    let _ = cname(Compression::None);
    rep.finish()
}

pub fn replay(case: &Value) -> Vec<String> {
    let subs = subjects(false);
    let Some(s) = subs.iter().find(|s| Some(s.name.as_str()) == case["subject"].as_str()) else {
        return vec!["unknown subject".into()];
    };
    check_range(s, bfrom(&case["lo"]), bfrom(&case["hi"]), 200).into_iter().map(|(k, d)| format!("{k}: {d}")).collect()
}

//! C17 - a torn write is never mistaken for a complete archive.
//! Engine E4 (crash points): the write is recorded as a log of N seek/write/flush operations on a
//! fresh stream; for every k in [0, N] the first k operations are replayed (each write atomic) and
//! the resulting image is handed to the reader.
use super::gen::*;
use super::scen::small_logical;
use crate::common::{block_on, catch, cname, COMPS};
use crate::env::{replay_prefix, DefaultChooser, Handle, Kind, OpRec};
use crate::model::*;
use crate::report::Report;
use pmtiles2::{Compression, PMTiles};
use rayon::prelude::*;
use serde_json::{json, Value};

fn record_write(l: &Logical, api: Api) -> Result<(Vec<OpRec>, Vec<u8>), String> {
    let h = Handle::new(Vec::new(), Box::new(DefaultChooser)).record_data();
    let r = catch(|| -> std::io::Result<()> {
        match api {
            Api::Sync => {
                let mut pm = PMTiles::<std::io::Cursor<Vec<u8>>>::default();
                fill(&mut pm, l);
                pm.to_writer(&mut h.sync())
            }
            Api::Async => {
                let mut pm = PMTiles::<futures::io::Cursor<Vec<u8>>>::default();
                fill(&mut pm, l);
                block_on(pm.to_async_writer(&mut h.asyn()))
            }
        }
    });
    match r {
        Ok(Ok(())) => Ok((h.log(), h.data())),
        Ok(Err(e)) => Err(e.to_string()),
        Err(p) => Err(format!("PANIC {p}")),
    }
}

fn fill<R>(pm: &mut PMTiles<R>, l: &Logical) {
    let s = &l.settings;
    pm.tile_type = s.tile_type;
    pm.tile_compression = s.tile_compression;
    pm.internal_compression = s.internal;
    pm.min_zoom = s.min_zoom;
    pm.max_zoom = s.max_zoom;
    pm.center_zoom = s.center_zoom;
    pm.min_longitude = s.coords[0];
    pm.min_latitude = s.coords[1];
    pm.max_longitude = s.coords[2];
    pm.max_latitude = s.coords[3];
    pm.center_longitude = s.coords[4];
    pm.center_latitude = s.coords[5];
    pm.meta_data = l.meta.clone();
    for (id, c) in l.tiles.iter() {
        pm.add_tile(*id, c.clone()).unwrap();
    }
}

pub fn subjects(thorough: bool) -> Vec<(String, Logical)> {
    let mut v = Vec::new();
    for c in COMPS {
        v.push((format!("empty/{}", cname(c)), Logical::new(c)));
        let mut l1 = Logical::new(c);
        l1.tiles.insert(7, b"x".to_vec());
        v.push((format!("one-tile/{}", cname(c)), l1));
        v.push((format!("three-tiles/{}", cname(c)), small_logical(c)));
        v.push((format!("runs-60/{}", cname(c)), scale_family(0, 60, c)));
    }
    // archives above the usual buffer sizes (8 KiB, 64 KiB) with tiny directories: tile data dominates
    for c in [Compression::None, Compression::GZip] {
        for size in [12_000usize, 70_000] {
            let mut l = small_logical(c);
            l.tiles.insert(9, crate::common::xorshift_bytes(size as u64, size));
            v.push((format!("big-tile-{size}/{}", cname(c)), l));
        }
    }
    // tile data of more than one MiB that is not a whole number of MiB (a writer that streams the section in blocks
    // has a last, shorter block), and of exactly 2 MiB
    for (size, c) in [(1_100_000usize, Compression::None), ((3 << 20) + 5, Compression::GZip), ((2 << 20) - 3, Compression::None)] {
        let mut l = small_logical(c);
        l.tiles.insert(9, crate::common::xorshift_bytes(size as u64, size));
        v.push((format!("big-tile-{size}/{}", cname(c)), l));
    }
    if thorough {
        // every partial map of three ids into four contents, all codecs
        for c in COMPS {
            for (i, l) in small_maps(3, c).into_iter().enumerate() {
                v.push((format!("small-map-{i}/{}", cname(c)), l));
            }
        }
    }
    for c in if thorough { COMPS.to_vec() } else { vec![Compression::None, Compression::GZip] } {
        let n = crossing(1, c, &window_logical_entries) + 25;
        v.push((format!("leaf-spill-{n}/{}", cname(c)), window_logical(1, n, c)));
    }
    v
}

/// judge the image after k operations
pub fn judge_prefix(l: &Logical, complete: &[u8], image: &[u8]) -> Option<(String, String)> {
    for api in APIS {
        match open_view(image, api, &probes_for(l, &[])) {
            Err(e) if e.starts_with("PANIC") => return Some((format!("reader-panic/{}", api.name()), e)),
            Err(_) => {}
            Ok(v) => {
                if image != complete {
                    return Some((format!("torn-image-opens/{}", api.name()), format!("partial output of {} bytes (complete archive: {} bytes) opens successfully with {} tiles", image.len(), complete.len(), v.num_tiles)));
                }
                let bad = compare_view(l, &v);
                if let Some((clause, d)) = bad.into_iter().next() {
                    return Some((format!("complete-image-wrong/{clause}/{}", api.name()), d));
                }
            }
        }
    }
    None
}

/// A fresh stream that reports its position but cannot be positioned anywhere else (an append-only object, a pipe
/// behind a byte counter): every seek that would move it fails with `ErrorKind::Unsupported`. Records its writes.
#[derive(Default)]
struct AppendOnly {
    writes: Vec<Vec<u8>>,
    len: u64,
}
impl AppendOnly {
    fn seek_to(&mut self, to: std::io::SeekFrom) -> std::io::Result<u64> {
        let target = match to {
            std::io::SeekFrom::Start(n) => n as i128,
            std::io::SeekFrom::End(n) | std::io::SeekFrom::Current(n) => self.len as i128 + n as i128,
        };
        if target == self.len as i128 {
            Ok(self.len)
        } else {
            Err(std::io::Error::new(std::io::ErrorKind::Unsupported, "this stream cannot be positioned"))
        }
    }
}
impl std::io::Write for AppendOnly {
    fn write(&mut self, buf: &[u8]) -> std::io::Result<usize> {
        self.writes.push(buf.to_vec());
        self.len += buf.len() as u64;
        Ok(buf.len())
    }
    fn flush(&mut self) -> std::io::Result<()> {
        Ok(())
    }
}
impl std::io::Seek for AppendOnly {
    fn seek(&mut self, to: std::io::SeekFrom) -> std::io::Result<u64> {
        self.seek_to(to)
    }
}
impl futures::AsyncWrite for AppendOnly {
    fn poll_write(mut self: std::pin::Pin<&mut Self>, _: &mut std::task::Context<'_>, buf: &[u8]) -> std::task::Poll<std::io::Result<usize>> {
        std::task::Poll::Ready(std::io::Write::write(&mut *self, buf))
    }
    fn poll_flush(self: std::pin::Pin<&mut Self>, _: &mut std::task::Context<'_>) -> std::task::Poll<std::io::Result<()>> {
        std::task::Poll::Ready(Ok(()))
    }
    fn poll_close(self: std::pin::Pin<&mut Self>, _: &mut std::task::Context<'_>) -> std::task::Poll<std::io::Result<()>> {
        std::task::Poll::Ready(Ok(()))
    }
}
impl futures::AsyncSeek for AppendOnly {
    fn poll_seek(mut self: std::pin::Pin<&mut Self>, _: &mut std::task::Context<'_>, to: std::io::SeekFrom) -> std::task::Poll<std::io::Result<u64>> {
        std::task::Poll::Ready(self.seek_to(to))
    }
}

/// the writer on an append-only stream: whatever it does (the unchanged library gives up at its first seek without
/// having written anything), no prefix of what reached the stream may open unless it is the complete archive of a
/// write that reported success
pub fn append_only_prefixes(l: &Logical, api: Api) -> (u64, Vec<(String, String)>) {
    let mut out = AppendOnly::default();
    let r = catch(|| -> std::io::Result<()> {
        match api {
            Api::Sync => {
                let mut pm = PMTiles::<std::io::Cursor<Vec<u8>>>::default();
                fill(&mut pm, l);
                pm.to_writer(&mut out)
            }
            Api::Async => {
                let mut pm = PMTiles::<futures::io::Cursor<Vec<u8>>>::default();
                fill(&mut pm, l);
                block_on(pm.to_async_writer(&mut out))
            }
        }
    });
    let mut bad = Vec::new();
    let succeeded = matches!(r, Ok(Ok(())));
    if let Err(p) = &r {
        bad.push((format!("append-only-panic/{}", api.name()), p.clone()));
    }
    let complete: Vec<u8> = out.writes.concat();
    let mut image = Vec::new();
    let n = out.writes.len();
    for k in 0..=n {
        if k > 0 {
            image.extend_from_slice(&out.writes[k - 1]);
        }
        if succeeded && image == complete {
            continue;
        }
        for rd in APIS {
            if let Ok(v) = open_view(&image, rd, &[]) {
                bad.push((
                    format!("torn-image-opens/append-only/{}", api.name()),
                    format!("on a stream that cannot be positioned (the write as a whole {}), the output after {k} of {n} writes ({} bytes) opens with {} tiles", if succeeded { "reports success" } else { "fails" }, image.len(), v.num_tiles),
                ));
                break;
            }
        }
    }
    (n as u64 + 1, bad)
}

pub fn run(tier: &str) -> i32 {
    let rep = Report::new("C17", tier, "fault_enumeration");
    let thorough = rep.thorough();
    rep.rule("archives with 0, 1, 3 and 60 tiles x 4 compressions, archives with one tile of 12 KB, 70 KB, 1.05 MiB, 2 MiB and 3 MiB, and leaf-spilling archives x {sync,async} writer: the recorded log of N seek/write/flush/close operations on a fresh stream; for EVERY k in [0,N] the image after the first k operations (each write atomic) is opened with the sync and the async reader; oracle: Err unless the image is byte-identical to the complete archive (then it must read back as the logical archive); the same for the writes that reach a stream which cannot be positioned (seeks fail with Unsupported); non-trivial = crash points with >=1 write applied; distinct = (archive, writer, k)");
    rep.assume("each write call is atomic and writes land in program order (no reordering below the stream), as the property states");
    let subs = subjects(thorough);
    for (name, l) in subs.iter() {
        for api in APIS {
            let (log, complete) = match record_write(l, api) {
                Ok(x) => x,
                Err(e) => {
                    rep.violation(format!("write-fails/{name}"), e, json!({"kind":"crash","subject":name,"writer":api.name(),"k":-1}));
                    continue;
                }
            };
            let n = log.len();
            // consecutive non-write operations leave the image unchanged: evaluate each distinct image once
            let ks: Vec<usize> = (0..=n).collect();
            let res: Vec<(usize, Option<(String, String)>, bool)> = ks
                .par_iter()
                .map(|k| {
                    let same_as_prev = *k > 0 && log[*k - 1].kind != Kind::Write;
                    if same_as_prev && *k != n {
                        return (*k, None, false);
                    }
                    let img = replay_prefix(&log, *k);
                    (*k, judge_prefix(l, &complete, &img), true)
                })
                .collect();
            let opened_complete = (0..=n).filter(|k| replay_prefix(&log, *k) == complete).count();
            rep.eval((n + 1) as u64);
            rep.nontrivial(res.iter().filter(|r| r.2).count() as u64);
            rep.count("crash_points", (n + 1) as u64);
            rep.count("distinct_images_opened", res.iter().filter(|r| r.2).count() as u64);
            rep.count("crash_points_with_complete_image", opened_complete as u64);
            rep.count("write_histories", 1);
            for (k, bad, _) in res {
                if let Some((key, d)) = bad {
                    rep.violation(format!("{key}/{name}"), format!("[{} writer] crash after {k} of {n} operations: {d}", api.name()), json!({"kind":"crash","subject":name,"writer":api.name(),"k":k}));
                }
            }
            rep.sample(n as u64, || json!({"subject":name,"writer":api.name(),"N":n,"ops":log.iter().take(14).map(|o| format!("{:?}@{}+{}", o.kind, o.pos, o.data.len())).collect::<Vec<_>>()}));
            if name.starts_with("three-tiles/gzip") {
                rep.force_sample(json!({"subject":name,"writer":api.name(),"N":n,"ops":log.iter().map(|o| format!("{:?}@{}+{}", o.kind, o.pos, o.data.len())).collect::<Vec<_>>()}));
            }
        }
    }
    // streams that cannot be positioned
    for (name, l) in subs.iter().filter(|s| s.0.starts_with("empty/") || s.0.starts_with("three-tiles/") || s.0.starts_with("big-tile-12000/")) {
        for api in APIS {
            let (n, bad) = append_only_prefixes(l, api);
            rep.eval(n);
            rep.count("append_only_stream_prefixes", n);
            for (k, d) in bad {
                rep.violation(format!("{k}/{name}"), d, json!({"kind":"append-only","subject":name,"writer":api.name()}));
            }
        }
    }
    rep.finish()
}

pub fn replay(case: &Value) -> Vec<String> {
    if case["kind"].as_str() == Some("append-only") {
        let name = case["subject"].as_str().unwrap_or("");
        let api = if case["writer"].as_str() == Some("async") { Api::Async } else { Api::Sync };
        return match subjects(true).into_iter().find(|s| s.0 == name) {
            Some((_, l)) => append_only_prefixes(&l, api).1.into_iter().map(|(a, b)| format!("{a}: {b}")).collect(),
            None => vec![format!("unknown subject {name}")],
        };
    }
    let name = case["subject"].as_str().unwrap_or("");
    let api = if case["writer"].as_str() == Some("async") { Api::Async } else { Api::Sync };
    let Some((_, l)) = subjects(true).into_iter().find(|s| s.0 == name) else { return vec![format!("unknown subject {name}")] };
    match record_write(&l, api) {
        Ok((log, complete)) => {
            let k = case["k"].as_u64().unwrap_or(0) as usize;
            judge_prefix(&l, &complete, &replay_prefix(&log, k)).map(|(a, b)| format!("{a}: {b}")).into_iter().collect()
        }
        Err(e) => vec![e],
    }
}

//! C04 - under any edit history the archive behaves like a map from tile id to bytes.
//! Engine E2 (explicit-state BFS to fix-point over the real object), reference model BTreeMap.
use super::hist::*;
use crate::report::Report;
use crate::spec::hilbert;
use serde_json::{json, Value};

pub fn map_oracle(v: &mut Visit) -> Vec<(String, String)> {
    let mut bad = Vec::new();
    let ids: Vec<u64> = v.alpha.ids.iter().copied().chain(std::iter::once(v.alpha.outsider)).collect();
    for id in ids.iter() {
        let want = v.model.get(id);
        let got = v.live.get(*id);
        match (&got, want) {
            (Ok(Some(g)), Some(w)) if g == w => {}
            (Ok(None), None) => {}
            _ => bad.push((
                "lookup".to_string(),
                format!("lookup({id}) = {:?}, map says {:?}", got.as_ref().map(|o| o.as_ref().map(|b| crate::report::hex(b))), want.map(|b| crate::report::hex(b))),
            )),
        }
        // the same lookup through coordinates
        if let Some((z, x, y)) = hilbert::id_to_zxy(*id) {
            let g2 = v.live.get_xyz(x, y, z);
            if g2 != got {
                bad.push(("lookup-xyz".to_string(), format!("get_tile({x},{y},{z}) differs from get_tile_by_id({id})")));
            }
        }
    }
    let want_ids: Vec<u64> = v.model.keys().copied().collect();
    let got_ids = v.live.ids_sorted();
    if got_ids != want_ids {
        bad.push(("listing".to_string(), format!("tile_ids() = {got_ids:?}, map has {want_ids:?}")));
    }
    if v.live.ids_raw_len() != want_ids.len() {
        bad.push(("listing".to_string(), format!("tile_ids() has {} elements, map has {}", v.live.ids_raw_len(), want_ids.len())));
    }
    if v.live.num_tiles() != v.model.len() {
        bad.push(("count".to_string(), format!("num_tiles() = {}, map has {}", v.live.num_tiles(), v.model.len())));
    }
    bad
}

pub fn run(tier: &str) -> i32 {
    let rep = Report::new("C04", tier, "model_checking");
    let alpha = Alphabet::new(rep.thorough());
    rep.rule(&format!(
        "explicit-state BFS to fix-point over histories of add(id,c) x{} / remove(id) x{} / save+reopen(sync|async reader) from {} initial states (fresh sync/async per internal compression, three foreign archives x both readers); ids {:?} (adjacent: runs merge and split), contents {:?}; every transition executed twice (with and without lookups interleaved between operations); oracle in every state: lookups by id and by coordinates, sorted listing, count against a BTreeMap; non-trivial = states with >=1 tile; distinct = canonical states (hook snapshot + backing digest + flavour)",
        alpha.ids.len() * alpha.contents.len(), alpha.ids.len(), alpha.inits.len(), alpha.ids, alpha.contents.iter().map(|c| String::from_utf8_lossy(c).to_string()).collect::<Vec<_>>()
    ));
    rep.assume("state merging: two objects with equal hook snapshots, equal backing bytes and equal API flavour differ only in hash-map iteration order, which no transition or observation used here depends on (tile_ids() is compared sorted); byte-level dependence on iteration order is C16's subject");
    rep.assume("alphabets beyond the stated ids/contents and random long sequences are not explored");
    let (stats, complete, samples) = explore(
        &alpha,
        &map_oracle,
        &|k, d, c| rep.violation(k, d, c),
        if rep.thorough() { 3_000_000 } else { 400_000 },
    );
    // second, independent exploration order: transitions reversed, frontiers expanded back to front. The set of
    // canonical states reached must be identical (a cross-check of the explorer itself, and of state merging)
    let (stats2, complete2, _) = explore_ordered(&alpha, &map_oracle, &|k, d, c| rep.violation(k, d, c), if rep.thorough() { 3_000_000 } else { 400_000 }, true);
    rep.set("second_exploration", json!({"order":"reversed transitions, reversed frontiers","states":stats2.states,"transitions":stats2.transitions,"same_state_set":stats2.state_set_digest == stats.state_set_digest && stats2.states == stats.states}));
    if complete && complete2 && (stats2.states != stats.states || stats2.state_set_digest != stats.state_set_digest) {
        println!("MACHINERY: two exploration orders reached different state sets ({} vs {} states) - the explorer or the state key is unsound", stats.states, stats2.states);
        return 2;
    }
    rep.eval(stats.transitions * 2 + stats2.transitions * 2);
    rep.nontrivial(stats.states.saturating_sub(alpha.inits.len() as u64));
    rep.set("states", json!(stats.states));
    rep.set("transitions", json!(stats.transitions));
    rep.set("traces_validated_against_impl", json!(stats.transitions * 2));
    rep.set("max_depth", json!(stats.max_depth));
    rep.set("transitions_into_known_states", json!(stats.merged));
    rep.set("distinct_observation_vectors", json!(stats.distinct_observations));
    rep.set("fixpoint_reached", json!(complete));
    if !complete {
        rep.not_exhaustive("state cap reached before the fix-point");
    }
    for s in samples {
        rep.force_sample(s);
    }
    rep.finish()
}

pub fn replay_with(case: &Value, check: &dyn Fn(&mut Visit) -> Vec<(String, String)>) -> Vec<String> {
    let alpha = Alphabet::new(case["thorough"].as_bool().unwrap_or(false));
    let (init, ops) = hist_from_case(case);
    let mut out = Vec::new();
    for lookups in [false, true] {
        // check after every prefix so that the first failing step is reported
        for n in 0..=ops.len() {
            match build(&alpha, init, &ops[..n], lookups) {
                Ok((mut live, model)) => {
                    for (k, d) in check(&mut Visit { live: &mut live, model: &model, init, hist: &ops[..n], alpha: &alpha }) {
                        out.push(format!("after {n} op(s){}: {k}: {d}", if lookups { " with interleaved lookups" } else { "" }));
                    }
                }
                Err(e) => out.push(format!("after {n} op(s): {e}")),
            }
            if !out.is_empty() {
                return out;
            }
        }
    }
    out
}

pub fn replay(case: &Value) -> Vec<String> {
    replay_with(case, &map_oracle)
}

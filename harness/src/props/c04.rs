//! C04 - under any edit history the archive behaves like a map from tile id to bytes.
//! Engine E2 (explicit-state BFS to fix-point over the real object), reference model BTreeMap.
use super::hist::*;
use crate::report::Report;
use crate::spec::hilbert;
use serde_json::{json, Value};

pub fn map_oracle(v: &mut Visit) -> Vec<(String, String)> {
    let mut bad = Vec::new();
    let ids: Vec<u64> = v.alpha.ids.iter().copied().chain(std::iter::once(v.alpha.outsider)).collect();
    for id in ids.iter() {
        let want = v.model.get(id);
        let got = v.live.get(*id);
        match (&got, want) {
            (Ok(Some(g)), Some(w)) if g == w => {}
            (Ok(None), None) => {}
            _ => bad.push((
                "lookup".to_string(),
                format!("lookup({id}) = {:?}, map says {:?}", got.as_ref().map(|o| o.as_ref().map(|b| crate::report::hex(b))), want.map(|b| crate::report::hex(b))),
            )),
        }
        // the same lookup through coordinates
        if let Some((z, x, y)) = hilbert::id_to_zxy(*id) {
            let g2 = v.live.get_xyz(x, y, z);
            if g2 != got {
                bad.push(("lookup-xyz".to_string(), format!("get_tile({x},{y},{z}) differs from get_tile_by_id({id})")));
            }
        }
    }
    let want_ids: Vec<u64> = v.model.keys().copied().collect();
    let got_ids = v.live.ids_sorted();
    if got_ids != want_ids {
        bad.push(("listing".to_string(), format!("tile_ids() = {got_ids:?}, map has {want_ids:?}")));
    }
    if v.live.ids_raw_len() != want_ids.len() {
        bad.push(("listing".to_string(), format!("tile_ids() has {} elements, map has {}", v.live.ids_raw_len(), want_ids.len())));
    }
    if v.live.num_tiles() != v.model.len() {
        bad.push(("count".to_string(), format!("num_tiles() = {}, map has {}", v.live.num_tiles(), v.model.len())));
    }
    // an operation that is refused (adding empty content) leaves the map as it was
    for id in ids.iter() {
        if v.live.add(*id, Vec::with_capacity(if id % 2 == 0 { 0 } else { 16 })).is_ok() {
            bad.push(("refused-add-accepted".to_string(), format!("add_tile({id}, <empty>) succeeded")));
            continue;
        }
        let got = v.live.get(*id);
        let want = v.model.get(id);
        if !matches!((&got, want), (Ok(Some(g)), Some(w)) if g == w) && !matches!((&got, want), (Ok(None), None)) {
            bad.push(("refused-add-changes-map".to_string(), format!("after the refused add_tile({id}, <empty>): lookup({id}) = {:?}, map says {:?}", got.as_ref().map(|o| o.as_ref().map(|b| crate::report::hex(b))), want.map(|b| crate::report::hex(b)))));
        }
    }
    if v.live.num_tiles() != v.model.len() {
        bad.push(("refused-add-changes-map".to_string(), format!("after refused adds: num_tiles() = {}, map has {}", v.live.num_tiles(), v.model.len())));
    }
    bad
}

pub fn run(tier: &str) -> i32 {
    let rep = Report::new("C04", tier, "model_checking");
    let thorough = rep.thorough();
    rep.rule("explicit-state BFS over histories of add(id,c) / remove(id) / save+reopen(sync|async reader), one search per alphabet variant (see 'searches'): variant 0 = unrelated contents AA, BB(, A); variant 1 = related contents A, A+NUL(, NUL) - proper prefix and suffix, concatenation of two others, trailing zero byte; both to fix-point from all initial states (fresh sync/async per internal compression, three foreign archives over the same contents x both readers, four range-filtered opens); quick only: variant 2 = the three related contents over ids 0,1,2,5 from two fresh objects, all histories of at most 5 operations; variant 3 (both tiers) = two unrelated contents over the four adjacent ids 0,1,2,3 from fresh objects (alternating contents A,B,A,B on consecutive ids; quick: one object, all histories of at most 6 operations; thorough: two objects, to fix-point); every transition executed twice (with and without lookups interleaved between operations); oracle in every state: lookups by id and by coordinates, sorted listing, count against a BTreeMap, and the same again after a refused add_tile(id, <empty>) for every id; non-trivial = states with >=1 tile; distinct = canonical states (hook snapshot + backing digest + flavour)");
    rep.assume("state merging: two objects with equal hook snapshots, equal backing bytes and equal API flavour differ only in hash-map iteration order, which no transition or observation used here depends on (tile_ids() is compared sorted); byte-level dependence on iteration order is C16's subject");
    rep.assume("alphabets beyond the stated ids/contents and random long sequences are not explored");
    let cap = if thorough { 3_000_000 } else { 400_000 };
    let variants: &[u8] = if thorough { &[0, 1, 3] } else { &[0, 1, 2, 3] };
    let mut searches = Vec::new();
    let (mut states, mut transitions, mut merged, mut max_depth, mut obs) = (0u64, 0u64, 0u64, 0usize, 0u64);
    let mut all_complete = true;
    for variant in variants {
        let alpha = Alphabet::variant(thorough, *variant);
        let (stats, complete, samples) = explore(&alpha, &map_oracle, &|k, d, c| rep.violation(k, d, c), cap);
        // second, independent exploration order: transitions reversed, frontiers expanded back to front. The set of
        // canonical states reached must be identical (a cross-check of the explorer itself, and of state merging)
        let (stats2, complete2, _) = explore_ordered(&alpha, &map_oracle, &|k, d, c| rep.violation(k, d, c), cap, true);
        if complete && complete2 && (stats2.states != stats.states || stats2.state_set_digest != stats.state_set_digest) {
            println!("MACHINERY: two exploration orders reached different state sets ({} vs {} states, variant {variant}) - the explorer or the state key is unsound", stats.states, stats2.states);
            return 2;
        }
        searches.push(json!({
            "variant": variant, "ids": alpha.ids, "contents_hex": alpha.contents_desc(), "initial_states": alpha.inits.len(),
            "depth_bound": alpha.max_depth, "fixpoint_reached": complete && alpha.max_depth.is_none(),
            "states": stats.states, "transitions": stats.transitions, "max_depth": stats.max_depth,
            "transitions_into_known_states": stats.merged, "distinct_observation_vectors": stats.distinct_observations,
            "second_exploration": {"order":"reversed transitions, reversed frontiers","states":stats2.states,"transitions":stats2.transitions,"same_state_set":stats2.state_set_digest == stats.state_set_digest && stats2.states == stats.states},
        }));
        rep.eval(stats.transitions * 2 + stats2.transitions * 2);
        rep.nontrivial(stats.states.saturating_sub(alpha.inits.len() as u64));
        states += stats.states;
        transitions += stats.transitions;
        merged += stats.merged;
        max_depth = max_depth.max(stats.max_depth);
        obs += stats.distinct_observations;
        all_complete &= complete && complete2;
        for s in samples.into_iter().take(3) {
            rep.force_sample(s);
        }
    }
    rep.set("searches", json!(searches));
    rep.set("states", json!(states));
    rep.set("transitions", json!(transitions));
    rep.set("traces_validated_against_impl", json!(transitions * 2));
    rep.set("max_depth", json!(max_depth));
    rep.set("transitions_into_known_states", json!(merged));
    rep.set("distinct_observation_vectors", json!(obs));
    rep.set("fixpoint_reached", json!(all_complete));
    if !all_complete {
        rep.not_exhaustive("state cap reached before the fix-point");
    }
    rep.finish()
}

pub fn replay_with(case: &Value, check: &dyn Fn(&mut Visit) -> Vec<(String, String)>) -> Vec<String> {
    let alpha = Alphabet::from_case(case);
    let (init, ops) = hist_from_case(case);
    let mut out = Vec::new();
    for lookups in [false, true] {
        // check after every prefix so that the first failing step is reported
        for n in 0..=ops.len() {
            match build(&alpha, init, &ops[..n], lookups) {
                Ok((mut live, model)) => {
                    for (k, d) in check(&mut Visit { live: &mut live, model: &model, init, hist: &ops[..n], alpha: &alpha }) {
                        out.push(format!("after {n} op(s){}: {k}: {d}", if lookups { " with interleaved lookups" } else { "" }));
                    }
                }
                Err(e) => out.push(format!("after {n} op(s): {e}")),
            }
            if !out.is_empty() {
                return out;
            }
        }
    }
    out
}

pub fn replay(case: &Value) -> Vec<String> {
    replay_with(case, &map_oracle)
}

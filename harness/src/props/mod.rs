//! One module per property: alphabets, bounds, oracles, evidence.
use serde_json::Value;

pub mod util;
pub mod gen;
pub mod c01;
pub mod c02;
pub mod hist;
pub mod foreign;
pub mod c03;
pub mod c04;
pub mod c05;
pub mod c06;
pub mod c07;
pub mod c08;
pub mod c09;
pub mod c10;
pub mod c11;
pub mod scen;
pub mod c12;
pub mod c13;
pub mod c14;
pub mod c15;
pub mod c16;
pub mod c17;
pub mod c18;
pub mod c19;
pub mod c20;

pub fn run(id: &str, tier: &str) -> i32 {
    match id {
        "C01" => c01::run(tier),
        "C02" => c02::run(tier),
        "C03" => c03::run(tier),
        "C04" => c04::run(tier),
        "C05" => c05::run(tier),
        "C06" => c06::run(tier),
        "C07" => c07::run(tier),
        "C08" => c08::run(tier),
        "C09" => c09::run(tier),
        "C10" => c10::run(tier),
        "C11" => c11::run(tier),
        "C12" => c12::run(tier),
        "C13" => c13::run(tier),
        "C14" => c14::run(tier),
        "C15" => c15::run(tier),
        "C16" => c16::run(tier),
        "C17" => c17::run(tier),
        "C18" => c18::run(tier),
        "C19" => c19::run(tier),
        "C20" => c20::run(tier),
        _ => {
            eprintln!("unknown property {id}");
            2
        }
    }
}

pub fn replay(id: &str, path: &str) -> i32 {
    let Ok(bytes) = std::fs::read(path) else {
        eprintln!("cannot read {path}");
        return 2;
    };
    let Ok(v) = serde_json::from_slice::<Value>(&bytes) else {
        eprintln!("replay file is not JSON");
        return 2;
    };
    let case = v.get("case").cloned().unwrap_or(Value::Null);
    let msgs: Vec<String> = match id {
        "C01" => c01::replay(&case),
        "C02" => c02::replay(&case),
        "C03" => c03::replay(&case),
        "C04" => c04::replay(&case),
        "C05" => c05::replay(&case),
        "C06" => c06::replay(&case),
        "C07" => c07::replay(&case),
        "C08" => c08::replay(&case),
        "C09" => c09::replay(&case),
        "C10" => c10::replay(&case),
        "C11" => c11::replay(&case),
        "C12" => c12::replay(&case),
        "C13" => c13::replay(&case),
        "C14" => c14::replay(&case),
        "C15" => c15::replay(&case),
        "C16" => c16::replay(&case),
        "C17" => c17::replay(&case),
        "C18" => c18::replay(&case),
        "C19" => c19::replay(&case),
        "C20" => c20::replay(&case),
        _ => {
            eprintln!("no replay for {id}");
            return 2;
        }
    };
    if msgs.is_empty() {
        println!("replay: case passes on the current tree");
        0
    } else {
        for m in msgs.iter() {
            println!("replay: {m}");
        }
        println!("VIOLATION property={id} replay={path}");
        1
    }
}

//! C06 - leaf-directory spill keeps the 16 KiB root budget and the exact mapping.
//! E1 parameter sweep: every n in a window around the size where the full list crosses 16257 bytes.
use super::c02::validate_written;
use super::gen::*;
use super::util::*;
use crate::common::{block_on, cname, comp_code, comp_from_name, COMPS};
use crate::env::{DefaultChooser, Handle};
use crate::model::Api;
use crate::report::Report;
use crate::spec::dir::{self, SEntry};
use crate::spec::codec;
use pmtiles2::util::{read_directories, write_directories, write_directories_async, WriteDirsOverflowStrategy};
use pmtiles2::Compression;
use rayon::prelude::*;
use serde_json::{json, Value};
use std::collections::BTreeMap;

pub const ROOT_BUDGET: usize = 16_384 - 127;

#[derive(Debug, Clone, Copy, PartialEq, Eq)]
pub enum LeafSize {
    Default,
    Size(usize),
    LargerThanList,
}
impl LeafSize {
    fn to_opt(self, n: usize) -> Option<WriteDirsOverflowStrategy> {
        match self {
            LeafSize::Default => None,
            LeafSize::Size(s) => Some(WriteDirsOverflowStrategy::OnlyLeafPointers { start_size: Some(s) }),
            LeafSize::LargerThanList => Some(WriteDirsOverflowStrategy::OnlyLeafPointers { start_size: Some(n + 17) }),
        }
    }
    fn name(self) -> String {
        match self {
            LeafSize::Default => "default".into(),
            LeafSize::Size(s) => format!("{s}"),
            LeafSize::LargerThanList => "larger-than-list".into(),
        }
    }
    fn from_name(s: &str) -> Self {
        match s {
            "default" => LeafSize::Default,
            "larger-than-list" => LeafSize::LargerThanList,
            x => LeafSize::Size(x.parse().unwrap_or(4096)),
        }
    }
}

/// run the directory writer; returns (root bytes, leaf section, final stream position)
fn run_writer(es: &[SEntry], c: Compression, ls: LeafSize, api: Api, p: u64) -> Out<(Vec<u8>, Vec<u8>, u64, Vec<u8>)> {
    let le: Vec<pmtiles2::Entry> = es.iter().map(to_lib_entry).collect();
    let h = Handle::new(vec![0xA5; p as usize], Box::new(DefaultChooser)).at(p);
    let r = call(|| match api {
        Api::Sync => write_directories(&mut h.sync(), &le, c, ls.to_opt(es.len())),
        Api::Async => block_on(write_directories_async(&mut h.asyn(), &le, c, ls.to_opt(es.len()))),
    });
    match r {
        Out::Ok(leaves) => {
            let pos = h.pos();
            let data = h.data();
            if pos < p || pos as usize > data.len() {
                return Out::Err(format!("stream position {pos} after writing (start {p}, stream length {})", data.len()));
            }
            Out::Ok((data[p as usize..pos as usize].to_vec(), leaves, pos, data[..p as usize].to_vec()))
        }
        Out::Err(e) => Out::Err(e),
        Out::Panic(e) => Out::Panic(e),
    }
}

fn expand(es: &[SEntry]) -> BTreeMap<u64, (u64, u32)> {
    let mut m = BTreeMap::new();
    for e in es {
        for i in 0..u64::from(e.run_length) {
            m.insert(e.tile_id + i, (e.offset, e.length));
        }
    }
    m
}

pub fn check_case(es: &[SEntry], c: Compression, ls: LeafSize, api: Api, p: u64) -> Vec<(String, String)> {
    let mut bad = Vec::new();
    let code = comp_code(c);
    let (root, leaves, _pos, prefix) = match run_writer(es, c, ls, api, p) {
        Out::Ok(x) => x,
        o => return vec![(format!("writer-{}", o.kind()), o.describe())],
    };
    if prefix.iter().any(|b| *b != 0xA5) {
        bad.push(("prefix-modified".into(), "bytes before the starting position were modified".into()));
    }
    if root.len() > ROOT_BUDGET {
        bad.push(("root-over-budget".into(), format!("root directory has {} bytes, budget is {ROOT_BUDGET}", root.len())));
    }
    // does the full list fit? judged with the same writer flavour
    let full = match api {
        Api::Sync => dir_write_sync(es, c),
        Api::Async => dir_write_async(es, c),
    };
    let full_len = full.ok().map(|b| b.len()).unwrap_or(usize::MAX);
    let root_entries = match codec::decompress(code, &root).map_err(|e| e.to_string()).and_then(|pl| dir::decode(&pl).map_err(|e| format!("{e:?}"))) {
        Ok(r) => r,
        Err(e) => {
            bad.push(("root-undecodable".into(), format!("root directory does not decode: {e}")));
            return bad;
        }
    };
    if full_len <= ROOT_BUDGET {
        if !leaves.is_empty() {
            bad.push(("needless-spill".into(), format!("the full list fits ({full_len} bytes) but a leaf section of {} bytes was produced", leaves.len())));
        }
        if leaves.is_empty() && root_entries != es {
            bad.push(("root-differs".into(), "the single root directory does not decode to the input list".into()));
        }
    } else {
        if leaves.is_empty() {
            bad.push(("no-spill".into(), format!("the full list needs {full_len} bytes but no leaf section was produced")));
        }
        let mut concat: Vec<SEntry> = Vec::new();
        let mut next_off = 0u64;
        for (i, re) in root_entries.iter().enumerate() {
            if re.run_length != 0 {
                bad.push(("root-holds-tile-entry".into(), format!("root entry {i} has run length {}", re.run_length)));
                continue;
            }
            if re.offset != next_off {
                bad.push(("leaves-not-contiguous".into(), format!("leaf {i} starts at {} but the previous leaf ended at {next_off}", re.offset)));
            }
            let end = re.offset + u64::from(re.length);
            next_off = end;
            if end as usize > leaves.len() {
                bad.push(("pointer-outside-leaf-section".into(), format!("leaf {i} [{},{end}) outside the leaf section of {} bytes", re.offset, leaves.len())));
                continue;
            }
            let slice = &leaves[re.offset as usize..end as usize];
            match codec::decompress(code, slice).map_err(|e| e.to_string()).and_then(|pl| dir::decode(&pl).map_err(|e| format!("{e:?}"))) {
                Ok(le) => {
                    match le.first() {
                        Some(f) if f.tile_id == re.tile_id => {}
                        f => bad.push(("pointer-id".into(), format!("pointer {i} carries id {} but its leaf starts with {:?}", re.tile_id, f.map(|e| e.tile_id)))),
                    }
                    concat.extend(le);
                }
                Err(e) => bad.push(("pointer-length".into(), format!("bytes [{},{end}) of the leaf section do not decode exactly to a directory: {e}", re.offset))),
            }
        }
        if !leaves.is_empty() && next_off as usize != leaves.len() {
            bad.push(("leaf-section-length".into(), format!("leaves cover {next_off} bytes of a {}-byte leaf section", leaves.len())));
        }
        if !leaves.is_empty() && concat != es {
            let i = concat.iter().zip(es.iter()).position(|(a, b)| a != b).unwrap_or(concat.len().min(es.len()));
            bad.push(("mapping-differs".into(), format!("resolving root and leaves yields {} entries, input has {}; first difference at index {i}", concat.len(), es.len())));
        }
    }
    // the library's own reader over root + leaves reproduces the run-expanded input
    let mut stream = vec![0u8; p as usize];
    stream.extend_from_slice(&root);
    let leaf_off = stream.len() as u64;
    stream.extend_from_slice(&leaves);
    let r = call(|| {
        let mut cur = std::io::Cursor::new(&stream);
        read_directories(&mut cur, c, (p, root.len() as u64), leaf_off, ..)
    });
    match r {
        Out::Ok(m) => {
            let got: BTreeMap<u64, (u64, u32)> = m.iter().map(|(k, v)| (*k, (v.offset, v.length))).collect();
            if got != expand(es) {
                bad.push(("read-back-differs".into(), format!("read_directories over the written root+leaves yields {} ids, input addresses {}", got.len(), expand(es).len())));
            }
        }
        o => bad.push((format!("read-back-{}", o.kind()), o.describe())),
    }
    bad
}

pub fn run(tier: &str) -> i32 {
    let rep = Report::new("C06", tier, "exploration");
    let thorough = rep.thorough();
    rep.rule("three entry-list families (dense small deltas; far-apart ids; mixed runs and back-references) plus a perfectly regular one at n in {1000,16257,16258,20000,70000} (fits compressed however long) and 12-46k entries with initial leaf size 1-2 (pointer roots beyond 64 KiB); per family and compression the crossing point n* (full list first exceeds 16257 bytes) is located by bisection and EVERY n in [n*-40, n*+80] is run, plus n in {0,1,2,n*/2,2n*,10n*}; x initial leaf size {default,1,7,4096,larger than the list} x 4 compressions x {sync,async} through util::write_directories(_async) at stream positions {0,127,1000}, and whole-archive writes over the same window validated by the independent reader; non-trivial = lists that do not fit; distinct = (family, n, codec, leaf size, api, position)");
    rep.assume("whether a list 'fits' is judged by the size of the same writer flavour's own single-directory encoding");
    let mut jobs: Vec<(u32, usize, Compression, LeafSize, Api, u64)> = Vec::new();
    let mut crossings = Vec::new();
    for fam in 0..3u32 {
        for c in COMPS {
            let nstar = crossing(fam, c, &window_entries);
            crossings.push(json!({"family":fam,"comp":cname(c),"n_star":nstar}));
            let brotli = c == Compression::Brotli;
            let (lo, hi) = if brotli && !thorough { (nstar.saturating_sub(8), nstar + 12) } else { (nstar.saturating_sub(40), nstar + 80) };
            let mut ns: Vec<usize> = (lo..=hi).collect();
            ns.extend([0, 1, 2, nstar / 2, 2 * nstar]);
            if thorough || !brotli {
                ns.push(10 * nstar);
            }
            for n in ns {
                for (li, ls) in [LeafSize::Default, LeafSize::Size(1), LeafSize::Size(7), LeafSize::Size(4096), LeafSize::LargerThanList].into_iter().enumerate() {
                    // tiny leaf sizes re-encode thousands of leaves per doubling step: keep them to a slice of the window
                    let tiny = matches!(ls, LeafSize::Size(1) | LeafSize::Size(7));
                    if tiny && n > 2 * nstar {
                        continue;
                    }
                    if tiny && !thorough && !(n % 8 == 1 || n == nstar || n == nstar + 1) {
                        continue;
                    }
                    if tiny && brotli && !(n == nstar + 1 || (thorough && n % 16 == 1)) {
                        continue;
                    }
                    // thousands of tiny compressed leaves per doubling step cost seconds: quick keeps one n per codec
                    if tiny && c != Compression::None && !thorough && n != nstar + 1 {
                        continue;
                    }
                    if tiny && brotli && !thorough && matches!(ls, LeafSize::Size(1)) {
                        continue;
                    }
                    for (ai, api) in [Api::Sync, Api::Async].into_iter().enumerate() {
                        let p = [0u64, 127, 1000][(n + li + ai) % 3];
                        jobs.push((fam, n, c, ls, api, p));
                    }
                }
            }
        }
    }
    // many tiny leaves: the pointer root itself grows beyond 64 KiB before the leaf size has doubled often enough
    let tiny_ns: Vec<usize> = if thorough { (12_000..=19_000).step_by(250).chain([33_000usize, 46_000]).collect() } else { vec![13_000, 15_000, 17_000] };
    for n in tiny_ns {
        for ls in [LeafSize::Size(1), LeafSize::Size(2)] {
            if !thorough && ls == LeafSize::Size(2) && n != 17_000 {
                continue;
            }
            jobs.push((0, n, Compression::None, ls, if n % 2000 == 0 { Api::Async } else { Api::Sync }, 127));
        }
    }
    // perfectly regular lists: they fit as ONE compressed root however long they are, and must not be spilled
    for c in COMPS {
        for n in [1000usize, 16_257, 16_258, 20_000, 70_000] {
            if c == Compression::Brotli && n > 20_000 && !thorough {
                continue;
            }
            for (ai, api) in [Api::Sync, Api::Async].into_iter().enumerate() {
                jobs.push((3, n, c, if ai == 0 { LeafSize::Default } else { LeafSize::Size(4096) }, api, [0u64, 127][ai]));
            }
        }
    }
    rep.set("window_crossings", json!(crossings));
    let res: Vec<_> = jobs
        .par_iter()
        .map(|(fam, n, c, ls, api, p)| {
            let t0 = std::time::Instant::now();
            let es = window_entries(*fam, *n);
            let full = lib_dir_size(&es, *c);
            let r = (check_case(&es, *c, *ls, *api, *p), full);
            if std::env::var("VERIF_VERBOSE").is_ok() && t0.elapsed().as_secs_f64() > 1.0 {
                println!("  slow: family {fam} n={n} {} leaf {} {} {:.1}s", cname(*c), ls.name(), api.name(), t0.elapsed().as_secs_f64());
            }
            r
        })
        .collect();
    rep.eval(jobs.len() as u64);
    rep.nontrivial(res.iter().filter(|r| r.1 > ROOT_BUDGET).count() as u64);
    rep.count("directory_writer_cases", jobs.len() as u64);
    rep.count("cases_full_list_in_(16257,16384]", res.iter().filter(|r| r.1 > ROOT_BUDGET && r.1 <= 16_384).count() as u64);
    rep.count("cases_spilled", res.iter().filter(|r| r.1 > ROOT_BUDGET).count() as u64);
    for ((fam, n, c, ls, api, p), (bad, _)) in jobs.iter().zip(res.into_iter()) {
        for (k, d) in bad.into_iter().take(4) {
            rep.violation(format!("{k}/{}", api.name()), format!("[family {fam} n={n} {} leaf-size {} P={p}] {d}", cname(*c), ls.name()), json!({"kind":"dirs","family":fam,"n":n,"comp":cname(*c),"leaf_size":ls.name(),"api":api.name(),"P":p}));
        }
    }
    // whole-archive writes over the window (families with a logical archive)
    let mut ajobs = Vec::new();
    for fam in [0u32, 1] {
        for c in COMPS {
            let nstar = crossing(fam, c, &window_logical_entries);
            let (lo, hi) = if c == Compression::Brotli && !thorough { (nstar.saturating_sub(4), nstar + 8) } else { (nstar.saturating_sub(20), nstar + 40) };
            for n in lo..=hi {
                ajobs.push((fam, n, c));
            }
        }
    }
    let ares: Vec<_> = ajobs
        .par_iter()
        .map(|(fam, n, c)| {
            let l = window_logical(*fam, *n, *c);
            let api = if n % 2 == 0 { Api::Async } else { Api::Sync };
            (api, validate_written(&l, api, "window", false))
        })
        .collect();
    rep.eval(ajobs.len() as u64);
    rep.nontrivial(ares.iter().filter(|r| matches!(r.1 .1, Some((_, l)) if l > 0)).count() as u64);
    rep.count("whole_archive_cases", ajobs.len() as u64);
    for ((fam, n, c), (api, (bad, _))) in ajobs.iter().zip(ares.into_iter()) {
        for (k, d) in bad.into_iter().take(3) {
            rep.violation(format!("archive/{k}"), format!("[family {fam} n={n}] {d}"), json!({"kind":"window","family":fam,"n":n,"comp":cname(*c),"writer":api.name()}));
        }
    }
    rep.force_sample(json!({"kind":"dirs","family":1,"n":"n*-40..n*+80","comp":"gzip","leaf_size":"default","note":"see window_crossings for n*"}));
    rep.force_sample(json!({"kind":"dirs","family":2,"first_entries":entries_json(&window_entries(2, 8))}));
    rep.finish()
}

pub fn replay(case: &Value) -> Vec<String> {
    let c = comp_from_name(case["comp"].as_str().unwrap_or("none"));
    let fam = case["family"].as_u64().unwrap_or(0) as u32;
    let n = case["n"].as_u64().unwrap_or(0) as usize;
    match case["kind"].as_str() {
        Some("window") => {
            let api = if case["writer"].as_str() == Some("async") { Api::Async } else { Api::Sync };
            validate_written(&window_logical(fam, n, c), api, "window", false).0.into_iter().map(|(k, d)| format!("{k}: {d}")).collect()
        }
        _ => {
            let api = if case["api"].as_str() == Some("async") { Api::Async } else { Api::Sync };
            check_case(&window_entries(fam, n), c, LeafSize::from_name(case["leaf_size"].as_str().unwrap_or("default")), api, case["P"].as_u64().unwrap_or(0)).into_iter().map(|(k, d)| format!("{k}: {d}")).collect()
        }
    }
}

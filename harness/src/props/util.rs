//! helpers shared by property modules
use crate::common::{block_on, catch};
use crate::spec::dir::SEntry;
use pmtiles2::{Compression, Directory, Entry};
use serde_json::{json, Value};

pub fn to_lib_entry(e: &SEntry) -> Entry {
    Entry { tile_id: e.tile_id, offset: e.offset, length: e.length, run_length: e.run_length }
}
pub fn from_lib_entry(e: &Entry) -> SEntry {
    SEntry { tile_id: e.tile_id, offset: e.offset, length: e.length, run_length: e.run_length }
}
pub fn to_lib_dir(es: &[SEntry]) -> Directory {
    Directory::from(es.iter().map(to_lib_entry).collect::<Vec<_>>())
}
pub fn from_lib_dir(d: &Directory) -> Vec<SEntry> {
    d.into_iter().map(from_lib_entry).collect()
}
pub fn entries_json(es: &[SEntry]) -> Value {
    json!(es
        .iter()
        .take(64)
        .map(|e| json!([e.tile_id.to_string(), e.offset.to_string(), e.length, e.run_length]))
        .collect::<Vec<_>>())
}
pub fn entries_from_json(v: &Value) -> Vec<SEntry> {
    v.as_array()
        .map(|a| {
            a.iter()
                .map(|e| SEntry {
                    tile_id: e[0].as_str().and_then(|s| s.parse().ok()).unwrap_or(0),
                    offset: e[1].as_str().and_then(|s| s.parse().ok()).unwrap_or(0),
                    length: e[2].as_u64().unwrap_or(0) as u32,
                    run_length: e[3].as_u64().unwrap_or(0) as u32,
                })
                .collect()
        })
        .unwrap_or_default()
}

/// Result of a library call: Ok(value) / Err(io error text) / Panic(text)
#[derive(Debug, Clone, PartialEq)]
pub enum Out<T> {
    Ok(T),
    Err(String),
    Panic(String),
}
impl<T> Out<T> {
    pub fn kind(&self) -> &'static str {
        match self {
            Out::Ok(_) => "ok",
            Out::Err(_) => "err",
            Out::Panic(_) => "panic",
        }
    }
    pub fn ok(self) -> Option<T> {
        match self {
            Out::Ok(v) => Some(v),
            _ => None,
        }
    }
    pub fn is_ok(&self) -> bool {
        matches!(self, Out::Ok(_))
    }
    pub fn is_err(&self) -> bool {
        matches!(self, Out::Err(_))
    }
    pub fn is_panic(&self) -> bool {
        matches!(self, Out::Panic(_))
    }
    pub fn describe(&self) -> String
    where
        T: std::fmt::Debug,
    {
        match self {
            Out::Ok(v) => {
                let s = format!("{v:?}");
                format!("Ok({})", s.chars().take(120).collect::<String>())
            }
            Out::Err(e) => format!("Err({e})"),
            Out::Panic(p) => format!("PANIC({p})"),
        }
    }
}
pub fn call<T>(f: impl FnOnce() -> std::io::Result<T>) -> Out<T> {
    match catch(f) {
        Ok(Ok(v)) => Out::Ok(v),
        Ok(Err(e)) => Out::Err(e.to_string()),
        Err(p) => Out::Panic(p),
    }
}

pub fn dir_write_sync(es: &[SEntry], c: Compression) -> Out<Vec<u8>> {
    call(|| {
        let d = to_lib_dir(es);
        let mut out = Vec::new();
        d.to_writer(&mut out, c)?;
        Ok(out)
    })
}
pub fn dir_write_async(es: &[SEntry], c: Compression) -> Out<Vec<u8>> {
    call(|| {
        let d = to_lib_dir(es);
        let mut out = futures::io::Cursor::new(Vec::new());
        block_on(d.to_async_writer(&mut out, c))?;
        Ok(out.into_inner())
    })
}
pub fn dir_read_sync(b: &[u8], c: Compression) -> Out<Vec<SEntry>> {
    call(|| Directory::from_bytes(b, c).map(|d| from_lib_dir(&d)))
}
pub fn dir_read_async(b: &[u8], c: Compression) -> Out<Vec<SEntry>> {
    call(|| {
        let mut r = futures::io::Cursor::new(b);
        block_on(Directory::from_async_reader(&mut r, b.len() as u64, c)).map(|d| from_lib_dir(&d))
    })
}

// ---------------------------------------------------------------------------------------------
// header helpers
// ---------------------------------------------------------------------------------------------
use crate::spec::header::SHeader;
use crate::spec::latlng::stored_to_deg;
use pmtiles2::{Header, TileType};

pub fn comp_of_code(c: u8) -> Option<Compression> {
    Some(match c {
        0 => Compression::Unknown,
        1 => Compression::None,
        2 => Compression::GZip,
        3 => Compression::Brotli,
        4 => Compression::ZStd,
        _ => return None,
    })
}
pub fn tt_of_code(c: u8) -> Option<TileType> {
    Some(match c {
        0 => TileType::Unknown,
        1 => TileType::Mvt,
        2 => TileType::Png,
        3 => TileType::Jpeg,
        4 => TileType::WebP,
        5 => TileType::AVIF,
        _ => return None,
    })
}
pub fn code_of_tt(t: TileType) -> u8 {
    match t {
        TileType::Unknown => 0,
        TileType::Mvt => 1,
        TileType::Png => 2,
        TileType::Jpeg => 3,
        TileType::WebP => 4,
        TileType::AVIF => 5,
    }
}

/// library header holding the same values as `s` (coordinates = fl(k/1e7)); None if an enum code is invalid
pub fn lib_header_from(s: &SHeader) -> Option<Header> {
    let mut h = Header::default();
    h.spec_version = 3;
    h.root_directory_offset = s.root_offset;
    h.root_directory_length = s.root_length;
    h.json_metadata_offset = s.meta_offset;
    h.json_metadata_length = s.meta_length;
    h.leaf_directories_offset = s.leaf_offset;
    h.leaf_directories_length = s.leaf_length;
    h.tile_data_offset = s.data_offset;
    h.tile_data_length = s.data_length;
    h.num_addressed_tiles = s.n_addressed;
    h.num_tile_entries = s.n_entries;
    h.num_tile_content = s.n_contents;
    h.clustered = s.clustered != 0;
    h.internal_compression = comp_of_code(s.internal_compression)?;
    h.tile_compression = comp_of_code(s.tile_compression)?;
    h.tile_type = tt_of_code(s.tile_type)?;
    h.min_zoom = s.min_zoom;
    h.max_zoom = s.max_zoom;
    h.center_zoom = s.center_zoom;
    h.min_pos.longitude = stored_to_deg(s.min_lon);
    h.min_pos.latitude = stored_to_deg(s.min_lat);
    h.max_pos.longitude = stored_to_deg(s.max_lon);
    h.max_pos.latitude = stored_to_deg(s.max_lat);
    h.center_pos.longitude = stored_to_deg(s.center_lon);
    h.center_pos.latitude = stored_to_deg(s.center_lat);
    Some(h)
}

/// field-wise comparison of a parsed library header with the spec header; returns the differing field names
pub fn header_diff(h: &Header, s: &SHeader) -> Vec<String> {
    let mut d = Vec::new();
    let mut chk = |name: &str, ok: bool| {
        if !ok {
            d.push(name.to_string());
        }
    };
    chk("spec_version", h.spec_version == 3);
    chk("root_directory_offset", h.root_directory_offset == s.root_offset);
    chk("root_directory_length", h.root_directory_length == s.root_length);
    chk("json_metadata_offset", h.json_metadata_offset == s.meta_offset);
    chk("json_metadata_length", h.json_metadata_length == s.meta_length);
    chk("leaf_directories_offset", h.leaf_directories_offset == s.leaf_offset);
    chk("leaf_directories_length", h.leaf_directories_length == s.leaf_length);
    chk("tile_data_offset", h.tile_data_offset == s.data_offset);
    chk("tile_data_length", h.tile_data_length == s.data_length);
    chk("num_addressed_tiles", h.num_addressed_tiles == s.n_addressed);
    chk("num_tile_entries", h.num_tile_entries == s.n_entries);
    chk("num_tile_content", h.num_tile_content == s.n_contents);
    chk("clustered", h.clustered == (s.clustered != 0));
    chk("internal_compression", crate::common::comp_code(h.internal_compression) == s.internal_compression);
    chk("tile_compression", crate::common::comp_code(h.tile_compression) == s.tile_compression);
    chk("tile_type", code_of_tt(h.tile_type) == s.tile_type);
    chk("min_zoom", h.min_zoom == s.min_zoom);
    chk("max_zoom", h.max_zoom == s.max_zoom);
    chk("center_zoom", h.center_zoom == s.center_zoom);
    let same = |a: f64, k: i32| a.to_bits() == stored_to_deg(k).to_bits() || (a == 0.0 && k == 0);
    chk("min_longitude", same(h.min_pos.longitude, s.min_lon));
    chk("min_latitude", same(h.min_pos.latitude, s.min_lat));
    chk("max_longitude", same(h.max_pos.longitude, s.max_lon));
    chk("max_latitude", same(h.max_pos.latitude, s.max_lat));
    chk("center_longitude", same(h.center_pos.longitude, s.center_lon));
    chk("center_latitude", same(h.center_pos.latitude, s.center_lat));
    d
}

pub fn header_write_sync(h: &Header) -> Out<Vec<u8>> {
    call(|| {
        let mut out = Vec::new();
        h.to_writer(&mut out)?;
        Ok(out)
    })
}
pub fn header_write_async(h: &Header) -> Out<Vec<u8>> {
    call(|| {
        let mut out = futures::io::Cursor::new(Vec::new());
        block_on(h.to_async_writer(&mut out))?;
        Ok(out.into_inner())
    })
}
/// the async header writer over a sink that is Pending once per call and takes at most `max` bytes per write
pub fn header_write_async_slow(h: &Header, max: usize) -> Out<Vec<u8>> {
    call(|| {
        let hd = crate::env::Handle::new(Vec::new(), Box::new(crate::env::Uniform { max, pending_each: 1 })).budget(2000, 1 << 16);
        block_on(h.to_async_writer(&mut hd.asyn()))?;
        Ok(hd.data())
    })
}
/// the async header reader over a source that is Pending once per call and delivers at most `max` bytes per read
pub fn header_read_async_slow(b: &[u8], max: usize) -> Out<(Header, u64)> {
    call(|| {
        let hd = crate::env::Handle::new(b.to_vec(), Box::new(crate::env::Uniform { max, pending_each: 1 })).budget(2000, 1 << 16);
        let h = block_on(Header::from_async_reader(&mut hd.asyn()))?;
        Ok((h, hd.pos()))
    })
}
/// returns (header, bytes consumed)
pub fn header_read_sync(b: &[u8]) -> Out<(Header, u64)> {
    call(|| {
        let mut c = std::io::Cursor::new(b);
        let h = Header::from_reader(&mut c)?;
        Ok((h, c.position()))
    })
}
pub fn header_read_async(b: &[u8]) -> Out<(Header, u64)> {
    call(|| {
        let mut c = futures::io::Cursor::new(b);
        let h = block_on(Header::from_async_reader(&mut c))?;
        Ok((h, c.position()))
    })
}

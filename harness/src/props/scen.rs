//! Scenarios over controlled streams, shared by C13 (fragmentation / Pending), C15 (fail-stop
//! faults) and C17 (crash points): each scenario runs one public API call (sequence) against a
//! stream whose every call is decided by a `Chooser`.

use super::foreign::{self, Offs, Shape, Spec};
use super::gen::*;
use super::util::*;
use crate::common::{block_on, catch, cname, COMPS};
use crate::env::{Chooser, Handle};
use crate::model::*;
use crate::spec::dir::SEntry;
use pmtiles2::util::{compress, compress_async, decompress, decompress_async, read_directories, read_directories_async, write_directories, write_directories_async};
use pmtiles2::{Compression, Directory, Header, PMTiles};
use std::io::{Read, Write};

#[derive(Debug, Clone, PartialEq, Eq)]
pub struct Outcome {
    /// Ok(digest of the returned value) | Err(io error text) | Err("PANIC ...")
    pub result: Result<String, String>,
    pub image: Vec<u8>,
    pub final_pos: u64,
    /// multi-call sessions: the result of every constituent call, in order
    pub parts: Vec<(String, Result<String, String>)>,
}

impl Outcome {
    pub fn is_panic(&self) -> bool {
        matches!(&self.result, Err(e) if e.starts_with("PANIC"))
    }
}

#[derive(Debug, Clone, Copy, PartialEq, Eq)]
pub enum Role {
    Reader,
    Writer,
}

pub struct Scenario {
    pub name: String,
    pub is_async: bool,
    pub role: Role,
    /// big scenarios get a smaller deviation bound
    pub heavy: bool,
    /// part of the fault enumeration (C15): the scenario is one API call whose Ok/Err is the verdict
    pub faults: bool,
    pub run: Box<dyn Fn(Box<dyn Chooser>) -> (Outcome, Handle) + Send + Sync>,
}

fn finish<T>(h: Handle, r: Result<std::io::Result<T>, String>, digest: impl FnOnce(&T) -> String) -> (Outcome, Handle) {
    let result = match r {
        Ok(Ok(v)) => Ok(digest(&v)),
        Ok(Err(e)) => Err(e.to_string()),
        Err(p) => Err(format!("PANIC {p}")),
    };
    let o = Outcome { result, image: h.data(), final_pos: h.pos(), parts: Vec::new() };
    (o, h)
}

pub fn small_logical(c: Compression) -> Logical {
    let mut l = Logical::new(c);
    l.tiles.insert(0, b"AA".to_vec());
    l.tiles.insert(1, b"AA".to_vec());
    l.tiles.insert(5, b"B".to_vec());
    l.meta = serde_json::json!({"k":"v","n":[1,2.5]}).as_object().unwrap().clone();
    l.settings.coords = [-1.5, 2.25, 3.0000001, 4.0, 0.5, -0.25];
    l
}

pub fn dir_entries3() -> Vec<SEntry> {
    vec![SEntry::new(1, 0, 300, 2), SEntry::new(130, 300, 5, 1), SEntry::new(1 << 33, 7, 70_000, 0)]
}

pub fn foreign_leaf_spec(comp: u8) -> Spec {
    Spec { order: 2, gap: 1, root_gap: false, shape: Shape::Leaves, run: 2, offs: Offs::BackRefs, n: 3, meta: 2, comp, base: 0, hv: 1, level_order: false, cv: 0 }
}

fn header_sample() -> Header {
    let mut s = crate::spec::header::SHeader::default();
    s.root_length = 300;
    s.meta_offset = 427;
    s.n_addressed = 7;
    s.min_lon = -1_234_567;
    s.center_lat = 21;
    s.clustered = 1;
    lib_header_from(&s).unwrap()
}

pub fn scenarios(include_heavy: bool) -> Vec<Scenario> {
    let mut v: Vec<Scenario> = Vec::new();
    // ---- header
    let hbytes = header_write_sync(&header_sample()).ok().unwrap_or_default();
    {
        let b = hbytes.clone();
        v.push(Scenario { name: "header-read/sync".into(), is_async: false, role: Role::Reader, heavy: false, faults: true, run: Box::new(move |ch| {
            let mut data = b.clone();
            data.extend_from_slice(b"trailing");
            let h = Handle::new(data, ch);
            let r = catch(|| Header::from_reader(&mut h.sync()));
            finish(h, r, |x| format!("{x:?}"))
        }) });
        let b = hbytes.clone();
        v.push(Scenario { name: "header-read/async".into(), is_async: true, role: Role::Reader, heavy: false, faults: true, run: Box::new(move |ch| {
            let mut data = b.clone();
            data.extend_from_slice(b"trailing");
            let h = Handle::new(data, ch);
            let r = catch(|| block_on(Header::from_async_reader(&mut h.asyn())));
            finish(h, r, |x| format!("{x:?}"))
        }) });
        v.push(Scenario { name: "header-write/sync".into(), is_async: false, role: Role::Writer, heavy: false, faults: true, run: Box::new(move |ch| {
            let h = Handle::new(Vec::new(), ch).record_data();
            let r = catch(|| header_sample().to_writer(&mut h.sync()));
            finish(h, r, |_| "()".into())
        }) });
        v.push(Scenario { name: "header-write/async".into(), is_async: true, role: Role::Writer, heavy: false, faults: true, run: Box::new(move |ch| {
            let h = Handle::new(Vec::new(), ch).record_data();
            let r = catch(|| block_on(header_sample().to_async_writer(&mut h.asyn())));
            finish(h, r, |_| "()".into())
        }) });
    }
    // ---- directory
    for c in COMPS {
        let es = dir_entries3();
        let bytes = crate::spec::codec::compress(crate::common::comp_code(c), &crate::spec::dir::encode(&es));
        let n = cname(c);
        {
            let b = bytes.clone();
            v.push(Scenario { name: format!("dir-read/{n}/sync"), is_async: false, role: Role::Reader, heavy: false, faults: true, run: Box::new(move |ch| {
                let mut data = b.clone();
                data.extend_from_slice(b"XYZ-after-directory");
                let len = b.len() as u64;
                let h = Handle::new(data, ch);
                let r = catch(|| Directory::from_reader(&mut h.sync(), len, c));
                finish(h, r, |x| format!("{x:?}"))
            }) });
            let b = bytes.clone();
            v.push(Scenario { name: format!("dir-read/{n}/async"), is_async: true, role: Role::Reader, heavy: false, faults: true, run: Box::new(move |ch| {
                let mut data = b.clone();
                data.extend_from_slice(b"XYZ-after-directory");
                let len = b.len() as u64;
                let h = Handle::new(data, ch);
                let r = catch(|| block_on(Directory::from_async_reader(&mut h.asyn(), len, c)));
                finish(h, r, |x| format!("{x:?}"))
            }) });
            let e2 = es.clone();
            v.push(Scenario { name: format!("dir-write/{n}/sync"), is_async: false, role: Role::Writer, heavy: false, faults: true, run: Box::new(move |ch| {
                let h = Handle::new(Vec::new(), ch).record_data();
                let r = catch(|| to_lib_dir(&e2).to_writer(&mut h.sync(), c));
                finish(h, r, |_| "()".into())
            }) });
            let e2 = es.clone();
            v.push(Scenario { name: format!("dir-write/{n}/async"), is_async: true, role: Role::Writer, heavy: false, faults: true, run: Box::new(move |ch| {
                let h = Handle::new(Vec::new(), ch).record_data();
                let r = catch(|| block_on(to_lib_dir(&e2).to_async_writer(&mut h.asyn(), c)));
                finish(h, r, |_| "()".into())
            }) });
        }
        // a directory above 4096 entries (buffer/size thresholds in the writer)
        let big: Vec<SEntry> = (0..5000u64).map(|i| SEntry::new(i * 2, i * 7, 7, 1)).collect();
        let e2 = big.clone();
        v.push(Scenario { name: format!("dir-write-5000/{n}/sync"), is_async: false, role: Role::Writer, heavy: true, faults: true, run: Box::new(move |ch| {
            let h = Handle::new(Vec::new(), ch).record_data();
            let r = catch(|| to_lib_dir(&e2).to_writer(&mut h.sync(), c));
            finish(h, r, |_| "()".into())
        }) });
        let e2 = big.clone();
        // uncompressed + async means one poll_write per varint (20k calls): covered by the leaf-spill writers instead
        if c != Compression::None {
        v.push(Scenario { name: format!("dir-write-5000/{n}/async"), is_async: true, role: Role::Writer, heavy: true, faults: true, run: Box::new(move |ch| {
            let h = Handle::new(Vec::new(), ch).record_data();
            let r = catch(|| block_on(to_lib_dir(&e2).to_async_writer(&mut h.asyn(), c)));
            finish(h, r, |_| "()".into())
        }) });
        }
        // ---- archive open + every lookup (library-written, and foreign with a leaf level)
        let l = small_logical(c);
        let lib_bytes = write_lib(&l, Api::Sync).expect("HARNESS: scenario archive must be writable");
        let f = foreign::build(&foreign_leaf_spec(crate::common::comp_code(c)));
        for (which, bytes, probes) in [("lib", lib_bytes.clone(), vec![0u64, 1, 2, 5, 6]), ("foreign-leaves", f.bytes.clone(), vec![0u64, 1, 2, 3, 4, 5, 6, 7, 8, 9])] {
            let b = bytes.clone();
            let p = probes.clone();
            v.push(Scenario { name: format!("archive-open+lookups/{which}/{n}/sync"), is_async: false, role: Role::Reader, heavy: false, faults: false, run: Box::new(move |ch| {
                let h = Handle::new(b.clone(), ch);
                let r = catch(|| PMTiles::from_reader(h.sync()).map(|mut pm| view_sync(&mut pm, &p)));
                finish(h, r, |x| format!("{x:?}"))
            }) });
            let b = bytes.clone();
            let p = probes.clone();
            v.push(Scenario { name: format!("archive-open+lookups/{which}/{n}/async"), is_async: true, role: Role::Reader, heavy: false, faults: false, run: Box::new(move |ch| {
                let h = Handle::new(b.clone(), ch);
                let r = catch(|| block_on(PMTiles::from_async_reader(h.asyn())).map(|mut pm| view_async(&mut pm, &p)));
                finish(h, r, |x| format!("{x:?}"))
            }) });
            // single-call variants for the fault enumeration: open alone, and open followed by ONE lookup
            let b = bytes.clone();
            v.push(Scenario { name: format!("archive-open/{which}/{n}/sync"), is_async: false, role: Role::Reader, heavy: false, faults: true, run: Box::new(move |ch| {
                let h = Handle::new(b.clone(), ch);
                let r = catch(|| PMTiles::from_reader(h.sync()).map(|mut pm| view_sync(&mut pm, &[])));
                finish(h, r, |x| format!("{x:?}"))
            }) });
            let b = bytes.clone();
            v.push(Scenario { name: format!("archive-open/{which}/{n}/async"), is_async: true, role: Role::Reader, heavy: false, faults: true, run: Box::new(move |ch| {
                let h = Handle::new(b.clone(), ch);
                let r = catch(|| block_on(PMTiles::from_async_reader(h.asyn())).map(|mut pm| view_async(&mut pm, &[])));
                finish(h, r, |x| format!("{x:?}"))
            }) });
            for id in probes.iter().copied().filter(|i| i % 2 == 1 || *i == 0) {
                let b = bytes.clone();
                v.push(Scenario { name: format!("archive-lookup-{id}/{which}/{n}/sync"), is_async: false, role: Role::Reader, heavy: false, faults: true, run: Box::new(move |ch| {
                    let h = Handle::new(b.clone(), ch);
                    let r = catch(|| PMTiles::from_reader(h.sync()).and_then(|mut pm| pm.get_tile_by_id(id)));
                    finish(h, r, |x| format!("{x:?}"))
                }) });
                let b = bytes.clone();
                v.push(Scenario { name: format!("archive-lookup-{id}/{which}/{n}/async"), is_async: true, role: Role::Reader, heavy: false, faults: true, run: Box::new(move |ch| {
                    let h = Handle::new(b.clone(), ch);
                    let r = catch(|| block_on(async { let mut pm = PMTiles::from_async_reader(h.asyn()).await?; pm.get_tile_by_id_async(id).await }));
                    finish(h, r, |x| format!("{x:?}"))
                }) });
            }
            // range-filtered open (+ listing)
            let b = bytes.clone();
            v.push(Scenario { name: format!("archive-open-partial/{which}/{n}/sync"), is_async: false, role: Role::Reader, heavy: false, faults: true, run: Box::new(move |ch| {
                let h = Handle::new(b.clone(), ch);
                let r = catch(|| PMTiles::from_reader_partially(h.sync(), 1..5).map(|mut pm| view_sync(&mut pm, &[])));
                finish(h, r, |x| format!("{x:?}"))
            }) });
            let b = bytes.clone();
            v.push(Scenario { name: format!("archive-open-partial/{which}/{n}/async"), is_async: true, role: Role::Reader, heavy: false, faults: true, run: Box::new(move |ch| {
                let h = Handle::new(b.clone(), ch);
                let r = catch(|| block_on(PMTiles::from_async_reader_partially(h.asyn(), 1..5)).map(|mut pm| view_async(&mut pm, &[])));
                finish(h, r, |x| format!("{x:?}"))
            }) });
            // sessions: open, look every id up twice, then re-write into a plain cursor; every call's result is kept
            let b = bytes.clone();
            let p = probes.clone();
            v.push(Scenario { name: format!("session/{which}/{n}/sync"), is_async: false, role: Role::Reader, heavy: false, faults: true, run: Box::new(move |ch| {
                let h = Handle::new(b.clone(), ch);
                let mut parts: Vec<(String, Result<String, String>)> = Vec::new();
                let r = catch(|| {
                    match PMTiles::from_reader(h.sync()) {
                        Ok(mut pm) => {
                            parts.push(("open".into(), Ok(format!("{} tiles", pm.num_tiles()))));
                            for pass in 1..=2 {
                                for id in p.iter() {
                                    parts.push((format!("get-{id}#{pass}"), pm.get_tile_by_id(*id).map(|o| format!("{o:?}")).map_err(|e| e.to_string())));
                                }
                            }
                            let mut out = std::io::Cursor::new(Vec::new());
                            parts.push(("rewrite".into(), pm.to_writer(&mut out).map(|_| crate::report::hex(out.get_ref())).map_err(|e| e.to_string())));
                        }
                        Err(e) => parts.push(("open".into(), Err(e.to_string()))),
                    }
                    Ok(())
                });
                let (mut o, h) = finish(h, r, |_| "session".into());
                o.parts = parts;
                (o, h)
            }) });
            let b = bytes.clone();
            let p = probes.clone();
            v.push(Scenario { name: format!("session/{which}/{n}/async"), is_async: true, role: Role::Reader, heavy: false, faults: true, run: Box::new(move |ch| {
                let h = Handle::new(b.clone(), ch);
                let mut parts: Vec<(String, Result<String, String>)> = Vec::new();
                let r = catch(|| {
                    match block_on(PMTiles::from_async_reader(h.asyn())) {
                        Ok(mut pm) => {
                            parts.push(("open".into(), Ok(format!("{} tiles", pm.num_tiles()))));
                            for pass in 1..=2 {
                                for id in p.iter() {
                                    parts.push((format!("get-{id}#{pass}"), block_on(pm.get_tile_by_id_async(*id)).map(|o| format!("{o:?}")).map_err(|e| e.to_string())));
                                }
                            }
                            let mut out = futures::io::Cursor::new(Vec::new());
                            parts.push(("rewrite".into(), block_on(pm.to_async_writer(&mut out)).map(|_| crate::report::hex(out.get_ref())).map_err(|e| e.to_string())));
                        }
                        Err(e) => parts.push(("open".into(), Err(e.to_string()))),
                    }
                    Ok(())
                });
                let (mut o, h) = finish(h, r, |_| "session".into());
                o.parts = parts;
                (o, h)
            }) });
            // read_directories utility on the same bytes
            let b = bytes.clone();
            v.push(Scenario { name: format!("read-directories/{which}/{n}/sync"), is_async: false, role: Role::Reader, heavy: false, faults: true, run: Box::new(move |ch| {
                let hd = crate::spec::header::SHeader::decode(&b).unwrap();
                let h = Handle::new(b.clone(), ch);
                let r = catch(|| read_directories(&mut h.sync(), c, (hd.root_offset, hd.root_length), hd.leaf_offset, ..).map(|m| {
                    let mut x: Vec<(u64, u64, u32)> = m.iter().map(|(k, v)| (*k, v.offset, v.length)).collect();
                    x.sort_unstable();
                    x
                }));
                finish(h, r, |x| format!("{x:?}"))
            }) });
            let b = bytes.clone();
            v.push(Scenario { name: format!("read-directories/{which}/{n}/async"), is_async: true, role: Role::Reader, heavy: false, faults: true, run: Box::new(move |ch| {
                let hd = crate::spec::header::SHeader::decode(&b).unwrap();
                let h = Handle::new(b.clone(), ch);
                let r = catch(|| block_on(read_directories_async(&mut h.asyn(), c, (hd.root_offset, hd.root_length), hd.leaf_offset, ..)).map(|m| {
                    let mut x: Vec<(u64, u64, u32)> = m.iter().map(|(k, v)| (*k, v.offset, v.length)).collect();
                    x.sort_unstable();
                    x
                }));
                finish(h, r, |x| format!("{x:?}"))
            }) });
        }
        // ---- archive write (in-memory tiles)
        let l2 = l.clone();
        v.push(Scenario { name: format!("archive-write/{n}/sync"), is_async: false, role: Role::Writer, heavy: false, faults: true, run: Box::new(move |ch| {
            let h = Handle::new(Vec::new(), ch).record_data();
            let r = catch(|| {
                let mut pm = PMTiles::<std::io::Cursor<Vec<u8>>>::default();
                apply(&mut pm, &l2);
                pm.to_writer(&mut h.sync())
            });
            finish(h, r, |_| "()".into())
        }) });
        let l2 = l.clone();
        v.push(Scenario { name: format!("archive-write/{n}/async"), is_async: true, role: Role::Writer, heavy: false, faults: true, run: Box::new(move |ch| {
            let h = Handle::new(Vec::new(), ch).record_data();
            let r = catch(|| {
                let mut pm = PMTiles::<futures::io::Cursor<Vec<u8>>>::default();
                apply(&mut pm, &l2);
                block_on(pm.to_async_writer(&mut h.asyn()))
            });
            finish(h, r, |_| "()".into())
        }) });
        // ---- archive re-write where the *backing reader* is the controlled stream (output is a plain cursor)
        let b = lib_bytes.clone();
        v.push(Scenario { name: format!("archive-rewrite-backing/{n}/sync"), is_async: false, role: Role::Reader, heavy: false, faults: true, run: Box::new(move |ch| {
            let h = Handle::new(b.clone(), ch);
            let r = catch(|| {
                let pm = PMTiles::from_reader(h.sync())?;
                let mut out = std::io::Cursor::new(Vec::new());
                pm.to_writer(&mut out)?;
                Ok(out.into_inner())
            });
            finish(h, r, |x: &Vec<u8>| crate::report::hex(x))
        }) });
        let b = lib_bytes.clone();
        v.push(Scenario { name: format!("archive-rewrite-backing/{n}/async"), is_async: true, role: Role::Reader, heavy: false, faults: true, run: Box::new(move |ch| {
            let h = Handle::new(b.clone(), ch);
            let r = catch(|| {
                let pm = block_on(PMTiles::from_async_reader(h.asyn()))?;
                let mut out = futures::io::Cursor::new(Vec::new());
                block_on(pm.to_async_writer(&mut out))?;
                Ok(out.into_inner())
            });
            finish(h, r, |x: &Vec<u8>| crate::report::hex(x))
        }) });
        // ---- write_directories utility at a non-zero position
        let es3: Vec<SEntry> = (0..12).map(|i| SEntry::new(i * 3, i * 10, 10, 1)).collect();
        let e2 = es3.clone();
        v.push(Scenario { name: format!("write-directories/{n}/sync"), is_async: false, role: Role::Writer, heavy: false, faults: true, run: Box::new(move |ch| {
            let h = Handle::new(vec![0x55; 127], ch).at(127).record_data();
            let le: Vec<pmtiles2::Entry> = e2.iter().map(to_lib_entry).collect();
            let r = catch(|| write_directories(&mut h.sync(), &le, c, None));
            finish(h, r, |x| crate::report::hex(x))
        }) });
        let e2 = es3.clone();
        v.push(Scenario { name: format!("write-directories/{n}/async"), is_async: true, role: Role::Writer, heavy: false, faults: true, run: Box::new(move |ch| {
            let h = Handle::new(vec![0x55; 127], ch).at(127).record_data();
            let le: Vec<pmtiles2::Entry> = e2.iter().map(to_lib_entry).collect();
            let r = catch(|| block_on(write_directories_async(&mut h.asyn(), &le, c, None)));
            finish(h, r, |x| crate::report::hex(x))
        }) });
        // ---- codec adapters over the controlled stream
        let payload: Vec<u8> = b"tile payload 0123456789 0123456789 0123456789 abcdefghijklmnopqrstuvwxyz".to_vec();
        let packed = crate::spec::codec::compress(crate::common::comp_code(c), &payload);
        let p2 = payload.clone();
        v.push(Scenario { name: format!("compress-adapter/{n}/sync"), is_async: false, role: Role::Writer, heavy: false, faults: false, run: Box::new(move |ch| {
            let h = Handle::new(Vec::new(), ch).record_data();
            let r = catch(|| {
                let mut s = h.sync();
                let mut w = compress(c, &mut s)?;
                w.write_all(&p2)?;
                w.flush()?;
                drop(w);
                Ok(())
            });
            finish(h, r, |_| "()".into())
        }) });
        let p2 = payload.clone();
        v.push(Scenario { name: format!("compress-adapter/{n}/async"), is_async: true, role: Role::Writer, heavy: false, faults: false, run: Box::new(move |ch| {
            use futures::AsyncWriteExt;
            let h = Handle::new(Vec::new(), ch).record_data();
            let r = catch(|| {
                let mut s = h.asyn();
                let mut w = compress_async(c, &mut s)?;
                block_on(w.write_all(&p2))?;
                block_on(w.close())?;
                Ok(())
            });
            finish(h, r, |_| "()".into())
        }) });
        let pk = packed.clone();
        v.push(Scenario { name: format!("decompress-adapter/{n}/sync"), is_async: false, role: Role::Reader, heavy: false, faults: false, run: Box::new(move |ch| {
            let h = Handle::new(pk.clone(), ch);
            let r = catch(|| {
                let mut s = h.sync();
                let mut rd = decompress(c, &mut s)?;
                let mut out = Vec::new();
                rd.read_to_end(&mut out)?;
                Ok(out)
            });
            finish(h, r, |x| crate::report::hex(x))
        }) });
        let pk = packed.clone();
        v.push(Scenario { name: format!("decompress-adapter/{n}/async"), is_async: true, role: Role::Reader, heavy: false, faults: false, run: Box::new(move |ch| {
            use futures::AsyncReadExt;
            let h = Handle::new(pk.clone(), ch);
            let r = catch(|| {
                let mut s = h.asyn();
                let mut rd = decompress_async(c, &mut s)?;
                let mut out = Vec::new();
                block_on(rd.read_to_end(&mut out))?;
                Ok(out)
            });
            finish(h, r, |x| crate::report::hex(x))
        }) });
    }
    // ---- sections with surplus bytes inside their declared length (a reserved/padded section): whatever the
    // reader decides on an in-memory buffer it must decide under every fragmentation
    for c in COMPS {
        let code = crate::common::comp_code(c);
        let name = cname(c);
        let f = foreign::build(&Spec { order: 0, gap: 0, root_gap: false, shape: Shape::Leaves, run: 1, offs: Offs::Contiguous, n: 3, meta: 2, comp: code, base: 0, hv: 1, level_order: false, cv: 0 });
        for which in ["meta", "root", "leaf"] {
            // grow the declared length of one section over the 9 bytes that follow it
            let mut b = f.bytes.clone();
            let h = f.header.clone();
            let (idx, val) = match which {
                "meta" => (3usize, h.meta_length + 9),
                "root" => (1usize, h.root_length + 9),
                _ => (5usize, h.leaf_length + 9),
            };
            // make room: insert 9 zero bytes behind the section and shift the later offsets
            let end = match which {
                "meta" => h.meta_offset + h.meta_length,
                "root" => h.root_offset + h.root_length,
                _ => h.leaf_offset + h.leaf_length,
            } as usize;
            let tail = b.split_off(end);
            b.extend_from_slice(&[0u8; 9]);
            b.extend_from_slice(&tail);
            let mut h2 = h.clone();
            for (o, _) in [(&mut h2.root_offset, 0), (&mut h2.meta_offset, 0), (&mut h2.leaf_offset, 0), (&mut h2.data_offset, 0)] {
                if *o as usize >= end {
                    *o += 9;
                }
            }
            match idx {
                3 => h2.meta_length = val,
                1 => h2.root_length = val,
                _ => {
                    // the last leaf pointer keeps its exact length; only the section is longer
                    h2.leaf_length = val;
                }
            }
            b[..127].copy_from_slice(&h2.encode());
            let bb = b.clone();
            v.push(Scenario { name: format!("archive-open/padded-{which}/{name}/sync"), is_async: false, role: Role::Reader, heavy: false, faults: false, run: Box::new(move |ch| {
                let h = Handle::new(bb.clone(), ch);
                let r = catch(|| PMTiles::from_reader(h.sync()).map(|mut pm| view_sync(&mut pm, &[0, 1, 2, 3])));
                finish(h, r, |x| format!("{x:?}"))
            }) });
            let bb = b.clone();
            v.push(Scenario { name: format!("archive-open/padded-{which}/{name}/async"), is_async: true, role: Role::Reader, heavy: false, faults: false, run: Box::new(move |ch| {
                let h = Handle::new(bb.clone(), ch);
                let r = catch(|| block_on(PMTiles::from_async_reader(h.asyn())).map(|mut pm| view_async(&mut pm, &[0, 1, 2, 3])));
                finish(h, r, |x| format!("{x:?}"))
            }) });
        }
    }
    // ---- metadata that starts with a UTF-8 byte order mark: accepted or refused, but alike under every fragmentation
    for c in [Compression::None, Compression::GZip] {
        let code = crate::common::comp_code(c);
        let name = cname(c);
        use crate::spec::archive::{encode_foreign, Layout, Node};
        let f = encode_foreign(&[Node::Tile(SEntry::new(0, 0, 2, 1))], b"AA", Some(b"\xEF\xBB\xBF{\"a\":1}"), code, &Layout::default(), crate::spec::header::SHeader { tile_type: 2, tile_compression: 1, ..Default::default() });
        let bb = f.bytes.clone();
        v.push(Scenario { name: format!("archive-open/padded-bom-meta/{name}/sync"), is_async: false, role: Role::Reader, heavy: false, faults: false, run: Box::new(move |ch| {
            let h = Handle::new(bb.clone(), ch);
            let r = catch(|| PMTiles::from_reader(h.sync()).map(|mut pm| view_sync(&mut pm, &[0])));
            finish(h, r, |x| format!("{x:?}"))
        }) });
        let bb = f.bytes.clone();
        v.push(Scenario { name: format!("archive-open/padded-bom-meta/{name}/async"), is_async: true, role: Role::Reader, heavy: false, faults: false, run: Box::new(move |ch| {
            let h = Handle::new(bb.clone(), ch);
            let r = catch(|| block_on(PMTiles::from_async_reader(h.asyn())).map(|mut pm| view_async(&mut pm, &[0])));
            finish(h, r, |x| format!("{x:?}"))
        }) });
    }
    // ---- sizes above the buffer thresholds on the I/O paths (4 KiB codec buffers, 8 KiB BufReader, 64 KiB)
    for c in [Compression::None, Compression::GZip] {
        let name = cname(c);
        let mut l = Logical::new(c);
        l.tiles.insert(3, crate::common::xorshift_bytes(5, 70_000));
        l.tiles.insert(4, b"small".to_vec());
        l.meta.insert("big".into(), serde_json::Value::String("m".repeat(9 * 1024)));
        let bytes = write_lib(&l, Api::Sync).expect("HARNESS: big scenario archive");
        let b = bytes.clone();
        v.push(Scenario { name: format!("archive-open+lookups/big-tile/{name}/sync"), is_async: false, role: Role::Reader, heavy: true, faults: false, run: Box::new(move |ch| {
            let h = Handle::new(b.clone(), ch);
            let r = catch(|| PMTiles::from_reader(h.sync()).map(|mut pm| {
                let v = view_sync(&mut pm, &[3, 4, 5]);
                (v.ids.clone(), v.meta.len(), v.tiles.iter().map(|(k, t)| (*k, t.as_ref().map(|o| o.as_ref().map(|b| crate::common::fnv(b))).map_err(|e| e.clone()))).collect::<Vec<_>>())
            }));
            finish(h, r, |x| format!("{x:?}"))
        }) });
        let b = bytes.clone();
        v.push(Scenario { name: format!("archive-open+lookups/big-tile/{name}/async"), is_async: true, role: Role::Reader, heavy: true, faults: false, run: Box::new(move |ch| {
            let h = Handle::new(b.clone(), ch);
            let r = catch(|| block_on(PMTiles::from_async_reader(h.asyn())).map(|mut pm| {
                let v = view_async(&mut pm, &[3, 4, 5]);
                (v.ids.clone(), v.meta.len(), v.tiles.iter().map(|(k, t)| (*k, t.as_ref().map(|o| o.as_ref().map(|b| crate::common::fnv(b))).map_err(|e| e.clone()))).collect::<Vec<_>>())
            }));
            finish(h, r, |x| format!("{x:?}"))
        }) });
        let l2 = l.clone();
        v.push(Scenario { name: format!("archive-write/big-tile/{name}/sync"), is_async: false, role: Role::Writer, heavy: true, faults: true, run: Box::new(move |ch| {
            let h = Handle::new(Vec::new(), ch).record_data();
            let r = catch(|| {
                let mut pm = PMTiles::<std::io::Cursor<Vec<u8>>>::default();
                apply(&mut pm, &l2);
                pm.to_writer(&mut h.sync())
            });
            finish(h, r, |_| "()".into())
        }) });
        let l2 = l.clone();
        v.push(Scenario { name: format!("archive-write/big-tile/{name}/async"), is_async: true, role: Role::Writer, heavy: true, faults: true, run: Box::new(move |ch| {
            let h = Handle::new(Vec::new(), ch).record_data();
            let r = catch(|| {
                let mut pm = PMTiles::<futures::io::Cursor<Vec<u8>>>::default();
                apply(&mut pm, &l2);
                block_on(pm.to_async_writer(&mut h.asyn()))
            });
            finish(h, r, |_| "()".into())
        }) });
        // re-write where the big tile comes from the controlled backing reader
        let b = bytes.clone();
        v.push(Scenario { name: format!("archive-rewrite-backing/big-tile/{name}/sync"), is_async: false, role: Role::Reader, heavy: true, faults: true, run: Box::new(move |ch| {
            let h = Handle::new(b.clone(), ch);
            let r = catch(|| {
                let pm = PMTiles::from_reader(h.sync())?;
                let mut out = std::io::Cursor::new(Vec::new());
                pm.to_writer(&mut out)?;
                Ok(crate::common::fnv(out.get_ref()))
            });
            finish(h, r, |x: &u64| format!("{x:x}"))
        }) });
        let b = bytes.clone();
        v.push(Scenario { name: format!("archive-rewrite-backing/big-tile/{name}/async"), is_async: true, role: Role::Reader, heavy: true, faults: true, run: Box::new(move |ch| {
            let h = Handle::new(b.clone(), ch);
            let r = catch(|| {
                let pm = block_on(PMTiles::from_async_reader(h.asyn()))?;
                let mut out = futures::io::Cursor::new(Vec::new());
                block_on(pm.to_async_writer(&mut out))?;
                Ok(crate::common::fnv(out.get_ref()))
            });
            finish(h, r, |x: &u64| format!("{x:x}"))
        }) });
    }
    // ---- one tile above 16 MiB (allocation strategies for big tiles), looked up and re-written over the controlled reader
    if include_heavy {
        let mut l = Logical::new(Compression::None);
        l.tiles.insert(1, crate::common::xorshift_bytes(17, (17 << 20) + 5));
        l.tiles.insert(2, b"small".to_vec());
        let bytes = std::sync::Arc::new(write_lib(&l, Api::Sync).expect("HARNESS: huge scenario archive"));
        let b = bytes.clone();
        v.push(Scenario { name: "archive-lookup/tile-17MiB/none/sync".into(), is_async: false, role: Role::Reader, heavy: true, faults: true, run: Box::new(move |ch| {
            let h = Handle::new((*b).clone(), ch);
            let r = catch(|| PMTiles::from_reader(h.sync()).and_then(|mut pm| pm.get_tile_by_id(1)).map(|o| o.map(|t| (t.len(), crate::common::fnv(&t)))));
            let result = match r {
                Ok(Ok(v)) => Ok(format!("{v:?}")),
                Ok(Err(e)) => Err(e.to_string()),
                Err(p) => Err(format!("PANIC {p}")),
            };
            // the image is not part of a reader's outcome (and would cost 17 MiB per execution)
            (Outcome { result, image: Vec::new(), final_pos: h.pos(), parts: Vec::new() }, h)
        }) });
        let b = bytes.clone();
        v.push(Scenario { name: "archive-lookup/tile-17MiB/none/async".into(), is_async: true, role: Role::Reader, heavy: true, faults: true, run: Box::new(move |ch| {
            let h = Handle::new((*b).clone(), ch);
            let r = catch(|| block_on(async { let mut pm = PMTiles::from_async_reader(h.asyn()).await?; pm.get_tile_by_id_async(1).await }).map(|o| o.map(|t| (t.len(), crate::common::fnv(&t)))));
            let result = match r {
                Ok(Ok(v)) => Ok(format!("{v:?}")),
                Ok(Err(e)) => Err(e.to_string()),
                Err(p) => Err(format!("PANIC {p}")),
            };
            (Outcome { result, image: Vec::new(), final_pos: h.pos(), parts: Vec::new() }, h)
        }) });
        let b = bytes.clone();
        v.push(Scenario { name: "archive-rewrite-backing/tile-17MiB/none/sync".into(), is_async: false, role: Role::Reader, heavy: true, faults: true, run: Box::new(move |ch| {
            let h = Handle::new((*b).clone(), ch);
            let r = catch(|| {
                let pm = PMTiles::from_reader(h.sync())?;
                let mut out = std::io::Cursor::new(Vec::new());
                pm.to_writer(&mut out)?;
                Ok::<(usize, u64), std::io::Error>((out.get_ref().len(), crate::common::fnv(out.get_ref())))
            });
            let result = match r {
                Ok(Ok(v)) => Ok(format!("{v:?}")),
                Ok(Err(e)) => Err(e.to_string()),
                Err(p) => Err(format!("PANIC {p}")),
            };
            (Outcome { result, image: Vec::new(), final_pos: h.pos(), parts: Vec::new() }, h)
        }) });
    }
    // ---- heavy: archive write with leaf spill
    if include_heavy {
        for c in [Compression::None, Compression::GZip] {
            let n = crossing(1, c, &window_logical_entries) + 20;
            let l = window_logical(1, n, c);
            let name = cname(c);
            let l2 = l.clone();
            v.push(Scenario { name: format!("archive-write-spill/{name}/sync"), is_async: false, role: Role::Writer, heavy: true, faults: true, run: Box::new(move |ch| {
                let h = Handle::new(Vec::new(), ch).record_data();
                let r = catch(|| {
                    let mut pm = PMTiles::<std::io::Cursor<Vec<u8>>>::default();
                    apply(&mut pm, &l2);
                    pm.to_writer(&mut h.sync())
                });
                finish(h, r, |_| "()".into())
            }) });
            let l2 = l.clone();
            v.push(Scenario { name: format!("archive-write-spill/{name}/async"), is_async: true, role: Role::Writer, heavy: true, faults: true, run: Box::new(move |ch| {
                let h = Handle::new(Vec::new(), ch).record_data();
                let r = catch(|| {
                    let mut pm = PMTiles::<futures::io::Cursor<Vec<u8>>>::default();
                    apply(&mut pm, &l2);
                    block_on(pm.to_async_writer(&mut h.asyn()))
                });
                finish(h, r, |_| "()".into())
            }) });
        }
    }
    v
}

fn apply<R>(pm: &mut PMTiles<R>, l: &Logical) {
    let s = &l.settings;
    pm.tile_type = s.tile_type;
    pm.tile_compression = s.tile_compression;
    pm.internal_compression = s.internal;
    pm.min_zoom = s.min_zoom;
    pm.max_zoom = s.max_zoom;
    pm.center_zoom = s.center_zoom;
    pm.min_longitude = s.coords[0];
    pm.min_latitude = s.coords[1];
    pm.max_longitude = s.coords[2];
    pm.max_latitude = s.coords[3];
    pm.center_longitude = s.coords[4];
    pm.center_latitude = s.coords[5];
    pm.meta_data = l.meta.clone();
    for (id, c) in l.tiles.iter() {
        pm.add_tile(*id, c.clone()).unwrap();
    }
}

//! C08 - malformed input is answered with an error value, never a crash.
//! E1 over deterministic neighbourhoods of small valid archives + a hazard corpus, executed in
//! worker sub-processes (address-space limit, 8 MiB stack, per-case alarm) so that aborts, stack
//! overflows and hangs are observed and attributed to the case and call in flight.
use super::foreign::{self, Offs, Shape, Spec};
use super::scen::{foreign_leaf_spec, small_logical};
use crate::common::{block_on, catch, cname, comp_code, panic_site, COMPS};
use crate::engine::isolate::{arm_alarm, emit, run_isolated, set_limits, Event};
use crate::model::*;
use crate::report::{hex, Report};
use crate::spec::header::SHeader;
use crate::spec::{codec, varint};
use pmtiles2::util::{decompress_all, read_directories, read_directories_async};
use pmtiles2::{Compression, Directory, Header, PMTiles};
use serde_json::{json, Value};
use std::sync::Mutex;

pub const BUDGET: u64 = 1 << 22;

#[derive(Clone, Debug)]
pub enum Target {
    Archive,
    Dir(u8),
}

#[derive(Clone, Debug)]
pub struct Case {
    pub bytes: Vec<u8>,
    pub target: Target,
    pub desc: String,
}

// ---------------------------------------------------------------------------------------------
// structured archives (raw varint level) for field deviations
// ---------------------------------------------------------------------------------------------

#[derive(Clone, Debug)]
pub struct Structured {
    pub header: SHeader,
    pub comp: u8,
    /// raw varints of the root: [n, deltas.., runs.., lens.., offs..]
    pub root: Vec<u64>,
    pub leaves: Vec<Vec<u64>>,
    /// root entry index of the pointer to leaf i
    pub ptr_slots: Vec<usize>,
    pub meta: Vec<u8>,
    pub data: Vec<u8>,
}

fn raw(entries: &[(u64, u64, u64, u64)]) -> Vec<u64> {
    // (delta, run, len, offset_raw)
    let mut v = vec![entries.len() as u64];
    v.extend(entries.iter().map(|e| e.0));
    v.extend(entries.iter().map(|e| e.1));
    v.extend(entries.iter().map(|e| e.2));
    v.extend(entries.iter().map(|e| e.3));
    v
}
fn ser(raw: &[u64]) -> Vec<u8> {
    let mut o = Vec::new();
    for v in raw {
        varint::put(&mut o, *v);
    }
    o
}

#[derive(Clone, Debug, PartialEq)]
pub enum Field {
    Root(usize),
    Leaf(usize, usize),
    HeaderU64(usize),
    HeaderByte(usize),
}

impl Structured {
    pub fn base(shape: u8, comp: u8) -> Structured {
        let header = SHeader { tile_type: 1, tile_compression: 2, clustered: 1, max_zoom: 3, ..SHeader::default() };
        match shape {
            // root only: ids 1..2 (run 2), 5, 6 ; offsets 0, contiguous, back-reference to 0
            0 => Structured { header, comp, root: raw(&[(1, 2, 2, 1), (4, 1, 3, 0), (1, 1, 2, 1)]), leaves: vec![], ptr_slots: vec![], meta: b"{\"a\":1}".to_vec(), data: b"AABBB".to_vec() },
            // root -> two leaves
            1 => Structured {
                header,
                comp,
                root: raw(&[(0, 0, 1, 1), (10, 0, 1, 0)]),
                leaves: vec![raw(&[(0, 1, 2, 1), (1, 3, 3, 0)]), raw(&[(10, 1, 2, 1), (7, 1, 1, 6)])],
                ptr_slots: vec![0, 1],
                meta: b"{}".to_vec(),
                data: b"AABBBC".to_vec(),
            },
            // empty root
            _ => Structured { header, comp, root: vec![0], leaves: vec![], ptr_slots: vec![], meta: Vec::new(), data: Vec::new() },
        }
    }

    /// serialise. `fix`: recompute leaf pointers and header offsets/lengths from the actual bytes;
    /// otherwise keep the pointer/header values of `stale` (a previous clean encoding).
    pub fn encode(&self, fix: bool, keep: &[(Field, u64)], stale: Option<&(SHeader, Vec<u64>)>) -> Vec<u8> {
        let leaf_bytes: Vec<Vec<u8>> = self.leaves.iter().map(|l| codec::compress(self.comp, &ser(l))).collect();
        let mut root = self.root.clone();
        let n = self.ptr_slots.len();
        let nroot = self.root_entry_count();
        if fix && n > 0 && nroot > 0 {
            let mut off = 0u64;
            for (i, slot) in self.ptr_slots.iter().enumerate() {
                let len_idx = 1 + 2 * nroot + slot;
                let off_idx = 1 + 3 * nroot + slot;
                if len_idx < root.len() && off_idx < root.len() {
                    root[len_idx] = leaf_bytes[i].len() as u64;
                    root[off_idx] = off + 1;
                }
                off += leaf_bytes[i].len() as u64;
            }
        } else if let Some((_, r)) = stale {
            // pointers exactly as in the clean encoding, except the deliberately deviated fields
            for slot in self.ptr_slots.iter() {
                for idx in [1 + 2 * nroot + slot, 1 + 3 * nroot + slot] {
                    if idx < root.len() && idx < r.len() && !keep.iter().any(|(f, _)| *f == Field::Root(idx)) {
                        root[idx] = r[idx];
                    }
                }
            }
        }
        for (f, v) in keep {
            if let Field::Root(i) = f {
                if *i < root.len() {
                    root[*i] = *v;
                }
            }
        }
        let root_bytes = codec::compress(self.comp, &ser(&root));
        let meta_bytes = if self.meta.is_empty() { Vec::new() } else { codec::compress(self.comp, &self.meta) };
        let leaves_all: Vec<u8> = leaf_bytes.concat();
        let mut h = self.header.clone();
        h.internal_compression = self.comp;
        if fix || stale.is_none() {
            h.root_offset = 127;
            h.root_length = root_bytes.len() as u64;
            h.meta_offset = h.root_offset + h.root_length;
            h.meta_length = meta_bytes.len() as u64;
            h.leaf_offset = h.meta_offset + h.meta_length;
            h.leaf_length = leaves_all.len() as u64;
            h.data_offset = h.leaf_offset + h.leaf_length;
            h.data_length = self.data.len() as u64;
            h.n_addressed = 5;
            h.n_entries = 4;
            h.n_contents = 3;
        } else if let Some((sh, _)) = stale {
            h = sh.clone();
        }
        let mut out = h.encode().to_vec();
        out.extend_from_slice(&root_bytes);
        out.extend_from_slice(&meta_bytes);
        out.extend_from_slice(&leaves_all);
        out.extend_from_slice(&self.data);
        for (f, v) in keep {
            match f {
                Field::HeaderU64(i) => out[8 + 8 * i..16 + 8 * i].copy_from_slice(&v.to_le_bytes()),
                Field::HeaderByte(o) => out[*o] = *v as u8,
                _ => {}
            }
        }
        out
    }
    fn root_entry_count(&self) -> usize {
        (self.root.len() - 1) / 4
    }
    /// clean encoding info for the stale mode
    pub fn clean(&self) -> (Vec<u8>, (SHeader, Vec<u64>)) {
        let b = self.encode(true, &[], None);
        let h = SHeader::decode(&b).expect("HARNESS: clean structured archive must have a valid header");
        // the fixed-up root raw values
        let leaf_bytes: Vec<Vec<u8>> = self.leaves.iter().map(|l| codec::compress(self.comp, &ser(l))).collect();
        let mut root = self.root.clone();
        let nroot = self.root_entry_count();
        let mut off = 0u64;
        for (i, slot) in self.ptr_slots.iter().enumerate() {
            root[1 + 2 * nroot + slot] = leaf_bytes[i].len() as u64;
            root[1 + 3 * nroot + slot] = off + 1;
            off += leaf_bytes[i].len() as u64;
        }
        (b, (h, root))
    }
    pub fn fields(&self) -> Vec<Field> {
        let mut f: Vec<Field> = (0..self.root.len()).map(Field::Root).collect();
        for (li, l) in self.leaves.iter().enumerate() {
            f.extend((0..l.len()).map(|i| Field::Leaf(li, i)));
        }
        f
    }
    pub fn with(&self, devs: &[(Field, u64)]) -> Structured {
        let mut s = self.clone();
        for (f, v) in devs {
            if let Field::Leaf(li, i) = f {
                s.leaves[*li][*i] = *v;
            }
        }
        s
    }
}

pub const VARINT_VALUES: [u64; 9] = [0, 1, 1 << 7, 1 << 31, (1 << 32) - 1, 1 << 32, 1 << 62, 1 << 63, u64::MAX];

fn header_u64_values(len: u64) -> Vec<u64> {
    vec![0, 1, 126, 127, len.wrapping_sub(1), len, len + 1, 1 << 32, 1 << 63, u64::MAX]
}

// ---------------------------------------------------------------------------------------------
// corpus
// ---------------------------------------------------------------------------------------------

fn base_archives() -> Vec<(String, Vec<u8>)> {
    let mut v = Vec::new();
    for c in COMPS {
        v.push((format!("lib-3tiles-{}", cname(c)), write_lib(&small_logical(c), Api::Sync).expect("HARNESS: base archive")));
        v.push((format!("foreign-leaves-{}", cname(c)), foreign::build(&foreign_leaf_spec(comp_code(c))).bytes));
    }
    v.push(("lib-empty-none".into(), write_lib(&Logical::new(Compression::None), Api::Sync).unwrap()));
    v.push(("foreign-depth3-none".into(), foreign::build(&Spec { order: 0, gap: 0, root_gap: false, shape: Shape::Depth3, run: 2, offs: Offs::Contiguous, n: 7, meta: 1, comp: 1, base: 0, hv: 0, level_order: false, cv: 0 }).bytes));
    v.push(("foreign-mixed-gzip".into(), foreign::build(&Spec { order: 4, gap: 1, root_gap: false, shape: Shape::Mixed, run: 1, offs: Offs::BackRefs, n: 7, meta: 2, comp: 2, base: 5, hv: 1, level_order: false, cv: 0 }).bytes));
    let mut l1 = Logical::new(Compression::ZStd);
    l1.tiles.insert(9, b"z".to_vec());
    v.push(("lib-1tile-zstd".into(), write_lib(&l1, Api::Async).unwrap()));
    v
}

fn hazards() -> Vec<Case> {
    let mut v = Vec::new();
    let mut add = |name: &str, s: &Structured, keep: &[(Field, u64)]| {
        v.push(Case { bytes: s.encode(true, keep, None), target: Target::Archive, desc: format!("hazard:{name}") });
    };
    for comp in [1u8, 2] {
        let b0 = Structured::base(0, comp);
        let b1 = Structured::base(1, comp);
        for count in [1u64 << 40, 1 << 62, u64::MAX, 1 << 31, 1 << 20] {
            add(&format!("root-count-{count:x}-c{comp}"), &b0, &[(Field::Root(0), count)]);
            add(&format!("leaf-count-{count:x}-c{comp}"), &b1.with(&[(Field::Leaf(0, 0), count)]), &[]);
        }
        // two hostile values that only hurt together: a huge count with a huge declared section length
        for count in [1u64 << 40, 1 << 62, u64::MAX] {
            for len in [1u64 << 40, 1 << 62, u64::MAX] {
                add(&format!("root-count-{count:x}+root-length-{len:x}-c{comp}"), &b0, &[(Field::Root(0), count), (Field::HeaderU64(1), len)]);
            }
            // leaf: count in the leaf, length in the pointer (a u32)
            add(&format!("leaf-count-{count:x}+pointer-length-u32max-c{comp}"), &b1.with(&[(Field::Leaf(0, 0), count)]), &[(Field::Root(5), (1 << 32) - 1)]);
            add(&format!("root-count-{count:x}+leaf-length-max-c{comp}"), &b1, &[(Field::Root(0), count), (Field::HeaderU64(5), u64::MAX)]);
            add(&format!("root-count-{count:x}+meta-length-max-c{comp}"), &b0, &[(Field::Root(0), count), (Field::HeaderU64(3), u64::MAX)]);
        }
        add(&format!("run-u32max+id-near-max-c{comp}"), &b0, &[(Field::Root(1), u64::MAX - 2), (Field::Root(4), (1 << 32) - 1)]);
        add(&format!("offset-max+data-offset-max-c{comp}"), &b0, &[(Field::Root(10), u64::MAX), (Field::HeaderU64(6), u64::MAX)]);
        add(&format!("pointer-offset-max+leaf-offset-max-c{comp}"), &b1, &[(Field::Root(7), u64::MAX), (Field::HeaderU64(4), u64::MAX)]);
        // wrapping id sum
        add(&format!("id-sum-wraps-c{comp}"), &b0, &[(Field::Root(1), 1 << 63), (Field::Root(2), 1 << 63)]);
        add(&format!("id-sum-wraps2-c{comp}"), &b0, &[(Field::Root(1), u64::MAX), (Field::Root(2), 1)]);
        // zero first offset
        add(&format!("first-offset-zero-c{comp}"), &b0, &[(Field::Root(10), 0)]);
        add(&format!("leaf-first-offset-zero-c{comp}"), &b1.with(&[(Field::Leaf(0, 7), 0)]), &[]);
        // contiguous-offset overflow: entry 0 at offset u64::MAX-1 with length 2^32-1, entry 1 contiguous
        add(&format!("contiguous-offset-overflow-c{comp}"), &b0, &[(Field::Root(10), u64::MAX), (Field::Root(7), (1 << 32) - 1), (Field::Root(11), 0)]);
        // tile_id + run_length overflow
        add(&format!("id-plus-run-overflow-c{comp}"), &b0, &[(Field::Root(1), u64::MAX - 5), (Field::Root(2), 3), (Field::Root(5), 9)]);
        add(&format!("id-max-run-1-c{comp}"), &b0, &[(Field::Root(1), u64::MAX), (Field::Root(0), 1)]);
        // section offsets near 2^64
        add(&format!("tile-data-offset-near-max-c{comp}"), &b0, &[(Field::HeaderU64(6), u64::MAX - 1)]);
        add(&format!("tile-data-offset-max-c{comp}"), &b0, &[(Field::HeaderU64(6), u64::MAX), (Field::Root(10), 2)]);
        add(&format!("leaf-offset-near-max-c{comp}"), &b1, &[(Field::HeaderU64(4), u64::MAX - 2)]);
        add(&format!("leaf-offset-max-c{comp}"), &b1, &[(Field::HeaderU64(4), u64::MAX)]);
        add(&format!("root-offset-max-c{comp}"), &b0, &[(Field::HeaderU64(0), u64::MAX)]);
        add(&format!("root-length-max-c{comp}"), &b0, &[(Field::HeaderU64(1), u64::MAX)]);
        add(&format!("meta-offset-max-c{comp}"), &b0, &[(Field::HeaderU64(2), u64::MAX)]);
        add(&format!("meta-length-max-c{comp}"), &b0, &[(Field::HeaderU64(3), u64::MAX)]);
        add(&format!("meta-length-2^62-c{comp}"), &b0, &[(Field::HeaderU64(3), 1 << 62)]);
        // huge tile length on a tiny file (lookup allocates what the entry declares)
        add(&format!("tile-length-u32max-c{comp}"), &b0, &[(Field::Root(7), (1 << 32) - 1)]);
        // run length beyond the budget (excluded by the budget rule, must be counted as skipped)
        add(&format!("run-length-u32max-c{comp}"), &b0, &[(Field::Root(4), (1 << 32) - 1)]);
    }
    // metadata nested far deeper than any stack allows (valid JSON prefix; arrays are not even objects)
    for comp in [1u8, 2, 4] {
        for (name, open, close, depth) in [("array", "[", "]", 200_000usize), ("object", "{\"a\":", "}", 100_000), ("array-unclosed", "[", "", 300_000)] {
            let mut m = String::with_capacity(depth * (open.len() + close.len()) + 2);
            for _ in 0..depth {
                m.push_str(open);
            }
            if name == "object" {
                m.push('1');
            }
            for _ in 0..depth {
                m.push_str(close);
            }
            let mut st = Structured::base(0, comp);
            st.meta = m.into_bytes();
            add(&format!("metadata-nested-{name}-{depth}-c{comp}"), &st, &[]);
        }
    }
    // metadata that is refused (valid JSON but not an object, or not UTF-8) and consists of multi-byte characters: for
    // every character width and every shift one document, so that ANY fixed byte index up to ~200 at which an error
    // message might cut a preview lies inside a character in one of them
    for comp in [1u8, 2] {
        for (wname, ch) in [("2-byte", "\u{e9}"), ("3-byte", "\u{20ac}"), ("4-byte", "\u{1F600}")] {
            for shift in 0..ch.len() {
                for (kind, open, close) in [("string", "\"", "\""), ("array", "[\"", "\"]")] {
                    let mut st = Structured::base(0, comp);
                    st.meta = format!("{open}{}{}{close}", "a".repeat(shift), ch.repeat(80)).into_bytes();
                    add(&format!("metadata-non-object-{kind}-{wname}-shift{shift}-c{comp}"), &st, &[]);
                }
            }
        }
        for (name, raw) in [("lone-lead-byte", &b"\"\xC3\""[..]), ("truncated-3-byte", &b"{\"a\":\"\xE2\x82\"}"[..]), ("ff-bytes", &b"[\"\xFF\xFE\"]"[..]), ("overlong-nul", &b"{\"\xC0\x80\":1}"[..])] {
            let mut st = Structured::base(0, comp);
            st.meta = raw.to_vec();
            add(&format!("metadata-not-utf8-{name}-c{comp}"), &st, &[]);
        }
    }
    // leaf pointer cycles and chains (uncompressed so that lengths can be made self-consistent)
    // self-pointing leaf: leaf = [n=1, delta, run=0, len=5, off=1] is 5 bytes long and points at itself
    let selfleaf = ser(&[1, 0, 0, 5, 1]);
    assert_eq!(selfleaf.len(), 5);
    let mk = |root_raw: Vec<u64>, leafsec: Vec<u8>, name: &str, leaf_at_root: bool| -> Case {
        let root_bytes = ser(&root_raw);
        let mut h = SHeader { tile_type: 1, internal_compression: 1, tile_compression: 1, ..SHeader::default() };
        h.root_offset = 127;
        h.root_length = root_bytes.len() as u64;
        h.meta_offset = 127 + h.root_length;
        h.meta_length = 0;
        h.leaf_offset = if leaf_at_root { 127 } else { h.meta_offset };
        h.leaf_length = leafsec.len() as u64;
        h.data_offset = h.meta_offset + leafsec.len() as u64;
        h.data_length = 4;
        let mut out = h.encode().to_vec();
        out.extend_from_slice(&root_bytes);
        out.extend_from_slice(&leafsec);
        out.extend_from_slice(b"DATA");
        Case { bytes: out, target: Target::Archive, desc: format!("hazard:{name}") }
    };
    v.push(mk(vec![1, 0, 0, 5, 1], selfleaf.clone(), "self-pointing-leaf", false));
    // the root is its own leaf: leaf section starts at the root, pointer (offset 0, length = root length 5)
    v.push(mk(vec![1, 0, 0, 5, 1], Vec::new(), "root-points-at-itself", true));
    // two-cycle: leaf A (at 0, 5 bytes) -> leaf B (at 5, 5 bytes) -> leaf A
    let a = ser(&[1, 0, 0, 5, 6]);
    let b = ser(&[1, 0, 0, 5, 1]);
    let mut two = a.clone();
    two.extend_from_slice(&b);
    v.push(mk(vec![1, 0, 0, 5, 1], two, "two-cycle", false));
    // chains: leaf_i -> leaf_{i+1}, last one holds a tile
    for depth in [3usize, 5, 16, 50, 500, 10_000] {
        let mut sec: Vec<Vec<u8>> = Vec::new();
        // build from the end; all leaves have the same shape so offsets are computable forwards
        // each pointer leaf: [1, 0, 0, len_next, off_next+1]
        let last = ser(&[1, 0, 1, 4, 1]);
        let mut sizes = vec![0usize; depth];
        sizes[depth - 1] = last.len();
        // iterate to a fixed point of the sizes (varint widths)
        for _ in 0..6 {
            let mut off = 0usize;
            let mut offs = vec![0usize; depth];
            for i in 0..depth {
                offs[i] = off;
                off += sizes[i].max(1);
            }
            sec.clear();
            for i in 0..depth {
                if i + 1 == depth {
                    sec.push(last.clone());
                } else {
                    sec.push(ser(&[1, 0, 0, sizes[i + 1] as u64, offs[i + 1] as u64 + 1]));
                }
            }
            let new: Vec<usize> = sec.iter().map(|s| s.len()).collect();
            if new == sizes {
                break;
            }
            sizes = new;
        }
        let first_len = sizes[0] as u64;
        v.push(mk(vec![1, 0, 0, first_len, 1], sec.concat(), &format!("leaf-chain-{depth}"), false));
    }
    // raw directory hazards
    for comp in 1..=4u8 {
        for (name, rawv) in [
            ("dir-count-2^40", vec![1u64 << 40]),
            ("dir-count-2^62", vec![1 << 62, 1, 1]),
            ("dir-count-max", vec![u64::MAX]),
            ("dir-id-wrap", vec![2, u64::MAX, 1, 1, 1, 1, 1, 1, 1]),
            ("dir-first-offset-zero", vec![1, 0, 1, 1, 0]),
            ("dir-contig-overflow", vec![2, 0, 1, 1, 1, (1 << 32) - 1, 1, u64::MAX, 0]),
            ("dir-len-overflow-u32", vec![1, 0, 1, 1 << 32, 1]),
            ("dir-run-overflow-u32", vec![1, 0, 1 << 32, 1, 1]),
            ("dir-len-zero", vec![1, 0, 1, 0, 1]),
            ("dir-truncated", vec![3, 1, 1]),
        ] {
            v.push(Case { bytes: codec::compress(comp, &ser(&rawv)), target: Target::Dir(comp), desc: format!("hazard:{name}-c{comp}") });
        }
        // over-long varints
        v.push(Case { bytes: codec::compress(comp, &[0xFF; 11]), target: Target::Dir(comp), desc: format!("hazard:dir-varint-11-bytes-c{comp}") });
        v.push(Case { bytes: codec::compress(comp, &[0x80, 0x80, 0x80, 0x80, 0x80, 0x80, 0x80, 0x80, 0x80, 0x02]), target: Target::Dir(comp), desc: format!("hazard:dir-varint-overflow-c{comp}") });
    }
    v
}

pub fn corpus(thorough: bool) -> Vec<Case> {
    let mut v: Vec<Case> = hazards();
    // (1) prefixes and (2) single-byte substitutions of valid archives
    for (name, b) in base_archives() {
        for len in 0..=b.len() {
            v.push(Case { bytes: b[..len].to_vec(), target: Target::Archive, desc: format!("prefix:{name}:{len}") });
        }
        for pos in 0..b.len() {
            for val in [0x00u8, 0x01, 0x7F, 0x80, 0xFF] {
                if b[pos] != val {
                    let mut m = b.clone();
                    m[pos] = val;
                    v.push(Case { bytes: m, target: Target::Archive, desc: format!("subst:{name}:{pos}:{val:02x}") });
                }
            }
        }
    }
    // (2b) splices: the head of one archive followed by the tail of another (every 8th cut and around section starts)
    {
        let bases = base_archives();
        for (ai, (an, a)) in bases.iter().enumerate() {
            let (bn, b) = &bases[(ai + 3) % bases.len()];
            let mut cuts: Vec<usize> = (0..a.len().min(b.len())).step_by(8).collect();
            for c in [127usize, 126, 128] {
                cuts.push(c);
            }
            if let Ok(h) = SHeader::decode(a) {
                for o in [h.root_offset + h.root_length, h.meta_offset + h.meta_length, h.leaf_offset, h.leaf_offset + h.leaf_length, h.data_offset] {
                    for d in [0u64, 1] {
                        cuts.push((o + d) as usize);
                    }
                }
            }
            cuts.sort_unstable();
            cuts.dedup();
            for c in cuts {
                if c <= a.len() && c <= b.len() {
                    let mut m = a[..c].to_vec();
                    m.extend_from_slice(&b[c..]);
                    v.push(Case { bytes: m, target: Target::Archive, desc: format!("splice:{an}|{bn}:{c}") });
                }
            }
        }
    }
    // (3) structure-aware field deviations
    for comp in 1..=4u8 {
        for shape in 0..3u8 {
            let s = Structured::base(shape, comp);
            let (clean, stale) = s.clean();
            let fields = s.fields();
            // one deviation, lengths fixed up or left stale
            for f in fields.iter() {
                for val in VARINT_VALUES {
                    for fix in [true, false] {
                        let s2 = s.with(&[(f.clone(), val)]);
                        let b = s2.encode(fix, &[(f.clone(), val)], Some(&stale));
                        v.push(Case { bytes: b, target: Target::Archive, desc: format!("field:shape{shape}:c{comp}:{f:?}={val:x}:{}", if fix { "fixed" } else { "stale" }) });
                    }
                }
            }
            // directory-level inputs: the deviated directory alone
            for f in fields.iter() {
                for val in VARINT_VALUES {
                    let mut rawv = match f {
                        Field::Root(_) => s.root.clone(),
                        Field::Leaf(li, _) => s.leaves[*li].clone(),
                        _ => continue,
                    };
                    match f {
                        Field::Root(i) | Field::Leaf(_, i) => rawv[*i] = val,
                        _ => {}
                    }
                    v.push(Case { bytes: codec::compress(comp, &ser(&rawv)), target: Target::Dir(comp), desc: format!("dirfield:shape{shape}:c{comp}:{f:?}={val:x}") });
                }
            }
            // header fields
            for i in 0..11usize {
                for val in header_u64_values(clean.len() as u64) {
                    v.push(Case { bytes: s.encode(true, &[(Field::HeaderU64(i), val)], None), target: Target::Archive, desc: format!("header:shape{shape}:c{comp}:u64#{i}={val:x}") });
                }
            }
            if comp <= 2 {
                for off in [7usize, 96, 97, 98, 99, 100, 101, 118] {
                    for val in 0..=255u64 {
                        v.push(Case { bytes: s.encode(true, &[(Field::HeaderByte(off), val)], None), target: Target::Archive, desc: format!("header:shape{shape}:c{comp}:byte@{off}={val:x}") });
                    }
                }
            }
            // two simultaneous deviations (thorough): all pairs of directory fields over a reduced value set, plus header x directory
            if thorough && shape < 2 {
                let vals = [0u64, 1 << 31, 1 << 32, 1 << 62, u64::MAX];
                for (i, f1) in fields.iter().enumerate() {
                    for f2 in fields.iter().skip(i + 1) {
                        for v1 in vals {
                            for v2 in vals {
                                let devs = [(f1.clone(), v1), (f2.clone(), v2)];
                                let s2 = s.with(&devs);
                                v.push(Case { bytes: s2.encode(true, &devs, Some(&stale)), target: Target::Archive, desc: format!("field2:shape{shape}:c{comp}:{f1:?}={v1:x},{f2:?}={v2:x}") });
                            }
                        }
                    }
                    for hi in [0usize, 1, 4, 6] {
                        for v1 in vals {
                            for v2 in [0u64, clean.len() as u64, 1 << 63, u64::MAX] {
                                let devs = [(f1.clone(), v1), (Field::HeaderU64(hi), v2)];
                                let s2 = s.with(&devs);
                                v.push(Case { bytes: s2.encode(true, &devs, Some(&stale)), target: Target::Archive, desc: format!("field2:shape{shape}:c{comp}:{f1:?}={v1:x},hdr#{hi}={v2:x}") });
                            }
                        }
                    }
                }
            }
        }
    }
    v
}

// ---------------------------------------------------------------------------------------------
// budget rule: lenient measure of what the directories declare
// ---------------------------------------------------------------------------------------------

fn lenient_dir(plain: &[u8]) -> Option<Vec<(u64, u64, u64, u64)>> {
    let mut pos = 0usize;
    let n = varint::get(plain, &mut pos).ok()?;
    if n > plain.len() as u64 {
        return None;
    }
    let n = n as usize;
    let mut cols = vec![vec![0u64; n]; 4];
    // columns that are cut short keep zeros: the library would fail there, but may already have
    // expanded earlier directories; only the declared run lengths matter for the cost
    'outer: for col in cols.iter_mut() {
        for x in col.iter_mut() {
            match varint::get(plain, &mut pos) {
                Ok(v) => *x = v,
                Err(_) => break 'outer,
            }
        }
    }
    let mut out = Vec::with_capacity(n);
    let mut id = 0u64;
    let mut prev_end = 0u64;
    for i in 0..n {
        id = id.wrapping_add(cols[0][i]);
        let off = if cols[3][i] == 0 { prev_end } else { cols[3][i] - 1 };
        prev_end = off.wrapping_add(cols[2][i]);
        out.push((id, cols[1][i], cols[2][i], off));
    }
    Some(out)
}

/// sum of declared run lengths + entries over everything reachable within 8 levels (saturating)
pub fn lenient_cost(b: &[u8]) -> u64 {
    if b.len() < 127 || &b[0..7] != b"PMTiles" || b[7] != 3 || b[97] == 0 || b[97] > 4 {
        return 0;
    }
    let u = |i: usize| u64::from_le_bytes(b[8 + 8 * i..16 + 8 * i].try_into().unwrap());
    let comp = b[97];
    let leaf_off = u(4);
    let mut cost = 0u64;
    let mut visits = 0u32;
    fn walk(b: &[u8], comp: u8, off: u64, len: u64, leaf_off: u64, depth: u32, cost: &mut u64, visits: &mut u32) {
        *visits += 1;
        if *visits > 20_000 || depth > 8 {
            return;
        }
        // the library reads what is there even if the declared section is longer than the file
        // (`take(length)` on a stream that simply ends), so an overflowing length is "until EOF"
        let end = off.saturating_add(len).min(b.len() as u64);
        if off >= end {
            return;
        }
        let plain = codec::decompress_lenient(comp, &b[off as usize..end as usize]);
        let Some(es) = lenient_dir(&plain) else { return };
        for (_, run, len, o) in es {
            *cost = cost.saturating_add(1);
            if run == 0 {
                walk(b, comp, leaf_off.wrapping_add(o), len, leaf_off, depth + 1, cost, visits);
            } else {
                *cost = cost.saturating_add(run);
            }
        }
    }
    walk(b, comp, u(0), u(1), leaf_off, 0, &mut cost, &mut visits);
    cost
}

// ---------------------------------------------------------------------------------------------
// worker
// ---------------------------------------------------------------------------------------------

static PANICS: Mutex<Vec<String>> = Mutex::new(Vec::new());

fn guard<T>(case: usize, call: &str, f: impl FnOnce() -> T) -> Option<T> {
    emit(&format!("c {call}"));
    match catch(f) {
        Ok(v) => Some(v),
        Err(p) => {
            emit(&format!("P {case} {call} {}", p.replace('\n', " ")));
            PANICS.lock().unwrap().push(format!("{call} panics: {p}"));
            None
        }
    }
}

fn run_case(i: usize, c: &Case) {
    let b = c.bytes.as_slice();
    match c.target {
        Target::Dir(comp) => {
            for code in 1..=4u8 {
                let cc = super::util::comp_of_code(code).unwrap();
                // the declared codec always, the others as garbage input
                let tag = if code == comp { "own" } else { "other" };
                // a directory that parses is also queried: ids in front of, at and behind its entries
                guard(i, &format!("Directory::from_bytes/{tag}"), || {
                    Directory::from_bytes(b, cc)
                        .map(|d| {
                            let mut found = 0usize;
                            for id in [0u64, 1, 2, 127, 128, 1 << 32, u64::MAX - 1, u64::MAX] {
                                found += usize::from(d.find_entry_for_tile_id(id).is_some());
                            }
                            (d.len(), found)
                        })
                        .ok()
                });
                guard(i, &format!("Directory::from_async_reader/{tag}"), || block_on(Directory::from_async_reader(&mut futures::io::Cursor::new(b), b.len() as u64, cc)).map(|d| d.len()).ok());
                guard(i, &format!("decompress_all/{tag}"), || decompress_all(cc, b).map(|d| d.len()).ok());
            }
            guard(i, "Directory::from_bytes/unknown", || Directory::from_bytes(b, Compression::Unknown).is_ok());
            // the caller-supplied length is just as untrusted as the bytes
            if let Some(cc) = super::util::comp_of_code(comp) {
                for len in [u64::MAX, 1 << 62, 1 << 40, 0] {
                    guard(i, "Directory::from_reader(len=huge)", || Directory::from_reader(&mut std::io::Cursor::new(b), len, cc).map(|d| d.len()).ok());
                    guard(i, "Directory::from_async_reader(len=huge)", || block_on(Directory::from_async_reader(&mut futures::io::Cursor::new(b), len, cc)).map(|d| d.len()).ok());
                }
            }
        }
        Target::Archive => {
            guard(i, "Header::from_bytes", || Header::from_bytes(b).is_ok());
            guard(i, "Header::from_async_reader", || block_on(Header::from_async_reader(&mut futures::io::Cursor::new(b))).is_ok());
            if lenient_cost(b) > BUDGET {
                emit(&format!("K {i}"));
                return;
            }
            // sync: open, list, look up, re-write
            let ids: Option<Vec<u64>> = guard(i, "PMTiles::from_bytes", || {
                PMTiles::from_bytes(b).ok().map(|pm| {
                    let mut ids: Vec<u64> = pm.tile_ids().into_iter().copied().collect();
                    ids.sort_unstable();
                    ids.truncate(48);
                    ids
                })
            })
            .flatten();
            if let Some(ids) = ids.as_ref() {
                let mut probes: Vec<u64> = ids.iter().flat_map(|x| [*x, x.wrapping_add(1), x.wrapping_sub(1)]).collect();
                probes.push(0);
                probes.push(u64::MAX);
                probes.sort_unstable();
                probes.dedup();
                guard(i, "get_tile_by_id", || {
                    if let Ok(mut pm) = PMTiles::from_bytes(b) {
                        for p in probes.iter() {
                            let _ = pm.get_tile_by_id(*p);
                        }
                        let _ = pm.get_tile(3, 5, 4);
                    }
                });
                guard(i, "to_writer", || {
                    if let Ok(pm) = PMTiles::from_bytes(b) {
                        let mut out = std::io::Cursor::new(Vec::new());
                        let _ = pm.to_writer(&mut out);
                    }
                });
                guard(i, "get_tile_by_id_async", || {
                    if let Ok(mut pm) = block_on(PMTiles::from_async_reader(futures::io::Cursor::new(b))) {
                        for p in probes.iter() {
                            let _ = block_on(pm.get_tile_by_id_async(*p));
                        }
                    }
                });
                guard(i, "to_async_writer", || {
                    if let Ok(pm) = block_on(PMTiles::from_async_reader(futures::io::Cursor::new(b))) {
                        let mut out = futures::io::Cursor::new(Vec::new());
                        let _ = block_on(pm.to_async_writer(&mut out));
                    }
                });
            }
            guard(i, "PMTiles::from_async_reader", || block_on(PMTiles::from_async_reader(futures::io::Cursor::new(b))).is_ok());
            guard(i, "from_bytes_partially(..0)", || PMTiles::from_bytes_partially(b, ..0).is_ok());
            guard(i, "from_bytes_partially(5..=5)", || PMTiles::from_bytes_partially(b, 5..=5).is_ok());
            guard(i, "from_bytes_partially(2^40..)", || PMTiles::from_bytes_partially(b, (1u64 << 40)..).is_ok());
            guard(i, "from_async_reader_partially(1..7)", || block_on(PMTiles::from_async_reader_partially(futures::io::Cursor::new(b), 1..7)).is_ok());
            if let Ok(h) = SHeader::decode(b) {
                if let Some(cc) = super::util::comp_of_code(h.internal_compression) {
                    guard(i, "read_directories", || read_directories(&mut std::io::Cursor::new(b), cc, (h.root_offset, h.root_length), h.leaf_offset, ..).map(|m| m.len()).ok());
                    guard(i, "read_directories_async", || block_on(read_directories_async(&mut futures::io::Cursor::new(b), cc, (h.root_offset, h.root_length), h.leaf_offset, ..)).map(|m| m.len()).ok());
                }
            }
            // the directory parser on the raw tail as well
            if b.len() > 127 {
                guard(i, "Directory::from_bytes(tail)", || Directory::from_bytes(&b[127..], Compression::None).map(|d| d.len()).ok());
            }
        }
    }
}

/// `pmv worker c08 <tier> <from> <to>`
pub fn worker(args: &[String]) -> i32 {
    let thorough = args.first().map(|s| s == "thorough").unwrap_or(false);
    let from: usize = args.get(1).and_then(|s| s.parse().ok()).unwrap_or(0);
    let to: usize = args.get(2).and_then(|s| s.parse().ok()).unwrap_or(0);
    let cases = corpus(thorough);
    set_limits(8 << 30);
    for i in from..to.min(cases.len()) {
        emit(&format!("S {i}"));
        arm_alarm(60);
        run_case(i, &cases[i]);
        arm_alarm(0);
        emit(&format!("E {i}"));
    }
    0
}

// ---------------------------------------------------------------------------------------------
// parent
// ---------------------------------------------------------------------------------------------

fn class_of(desc: &str) -> String {
    // input class without the concrete position/value
    let mut it = desc.split(':');
    let kind = it.next().unwrap_or("");
    match kind {
        "hazard" => desc.to_string(),
        _ => kind.to_string(),
    }
}

pub fn run(tier: &str) -> i32 {
    let rep = Report::new("C08", tier, "exploration");
    let thorough = rep.thorough();
    rep.rule("deterministic neighbourhoods of 12 small valid archives (library-written and foreign, 0-7 tiles, with and without leaf levels, 4 compressions): every prefix; every single-byte substitution by {00,01,7F,80,FF}; splices of two archives at every 8th offset and at the section boundaries; structure-aware deviations of every varint field of every directory to {0,1,2^7,2^31,2^32-1,2^32,2^62,2^63,2^64-1} with lengths fixed up or left stale, of every header u64 to 10 boundary values and of the enum/zoom/version bytes to all 256 codes (thorough: all pairs of deviations); a hand-written hazard corpus (counts up to 2^64-1, wrapping id sums, zero first offset, contiguous-offset overflow, id+run overflow, section offsets near 2^64, self-pointing leaf, root as its own leaf, 2-cycle, leaf chains up to 10^4). Each input goes through Header/Directory/PMTiles readers, lookups, partial opens, re-writes, read_directories, decompress_all and the async twins inside worker processes (RLIMIT_AS 8 GiB, 8 MiB stack, 60 s alarm). non-trivial = inputs that differ from a valid archive; distinct = distinct byte strings");
    rep.assume("inputs whose directories declare more than 2^22 tiles/steps (lenient reference walk) are outside the claim and are counted as skipped");
    rep.assume("build has overflow checks on: arithmetic overflow is an observable panic");
    let cases = corpus(thorough);
    let merr: Mutex<Vec<String>> = Mutex::new(Vec::new());
    let events = run_isolated(&["c08".to_string(), tier.to_string()], cases.len(), 1500, &merr);
    let mut distinct: std::collections::BTreeSet<u64> = std::collections::BTreeSet::new();
    for c in cases.iter() {
        distinct.insert(crate::common::fnv(&c.bytes));
    }
    rep.eval(cases.len() as u64);
    rep.nontrivial(distinct.len() as u64);
    rep.count("inputs", cases.len() as u64);
    rep.count("inputs_hazard_corpus", cases.iter().filter(|c| c.desc.starts_with("hazard")).count() as u64);
    rep.count("inputs_prefix", cases.iter().filter(|c| c.desc.starts_with("prefix")).count() as u64);
    rep.count("inputs_splice", cases.iter().filter(|c| c.desc.starts_with("splice")).count() as u64);
    rep.count("inputs_byte_substitution", cases.iter().filter(|c| c.desc.starts_with("subst")).count() as u64);
    rep.count("inputs_field_deviation", cases.iter().filter(|c| c.desc.starts_with("field") || c.desc.starts_with("dirfield")).count() as u64);
    rep.count("inputs_header_deviation", cases.iter().filter(|c| c.desc.starts_with("header")).count() as u64);
    let mut skipped = 0u64;
    for e in events.iter() {
        match e {
            Event::Skipped { .. } => skipped += 1,
            Event::Panic { case, call, msg } => {
                let c = &cases[*case];
                rep.violation(format!("panic/{}", panic_site(msg)), format!("{call} panics on input '{}': {msg}", c.desc), case_json(*case, c));
            }
            Event::Died { case, call, how } => {
                let c = &cases[*case];
                let short = how.split(' ').next().unwrap_or("died");
                rep.violation(format!("crash/{short}/{}/{}", call.split('/').next().unwrap_or(call), class_of(&c.desc)), format!("process dies with {how} in {call} on input '{}' ({} bytes)", c.desc, c.bytes.len()), case_json(*case, c));
            }
        }
    }
    rep.count("inputs_skipped_by_budget_rule", skipped);
    let me = merr.into_inner().unwrap();
    if !me.is_empty() {
        for m in me.iter().take(5) {
            println!("MACHINERY: {m}");
        }
        return 2;
    }
    rep.force_sample(json!({"desc":cases[0].desc,"hex":hex(&cases[0].bytes)}));
    let mid = &cases[cases.len() / 2];
    rep.force_sample(json!({"desc":mid.desc,"hex":hex(&mid.bytes[..mid.bytes.len().min(200)])}));
    let _ = class_of("");
    rep.finish()
}

fn case_json(i: usize, c: &Case) -> Value {
    json!({"kind":"input","index":i,"desc":c.desc,"target":format!("{:?}", c.target),"hex": if c.bytes.len() <= 4096 { hex(&c.bytes) } else { String::new() }})
}

/// replay runs the single input in a worker process of its own
pub fn replay(case: &Value) -> Vec<String> {
    let bytes = crate::report::unhex(case["hex"].as_str().unwrap_or(""));
    let target = match case["target"].as_str() {
        Some(t) if t.starts_with("Dir(") => Target::Dir(t[4..t.len() - 1].parse().unwrap_or(1)),
        _ => Target::Archive,
    };
    // in-process with catch_unwind for panics; crashes would kill this process, which is the demonstration
    let c = Case { bytes, target, desc: case["desc"].as_str().unwrap_or("").to_string() };
    println!("replaying input '{}' in-process (a crash of this process reproduces the finding)", c.desc);
    PANICS.lock().unwrap().clear();
    run_case(0, &c);
    let v = PANICS.lock().unwrap().clone();
    v
}

//! C19 - documented rejection contracts hold and leave the archive unchanged.
use super::hist::*;
use super::util::*;
use crate::common::{block_on, cname, comp_code, COMPS};
use crate::model::*;
use crate::report::Report;
use crate::spec::archive::{encode_foreign, Layout, Node};
use crate::spec::dir::{self, SEntry};
use crate::spec::header::SHeader;
use crate::spec::codec;
use pmtiles2::util::{compress, compress_all, compress_async, decompress, decompress_all, decompress_async};
use pmtiles2::{Compression, PMTiles};
use rayon::prelude::*;
use serde_json::{json, Value};

/// in every state: add_tile(id, empty) as Vec / &[u8] / String is refused and changes nothing
pub fn empty_add_oracle(v: &mut Visit) -> Vec<(String, String)> {
    let mut bad = Vec::new();
    let before_snap = v.live.snapshot();
    let before_obs = observe(v.live, v.alpha);
    let before_ids = v.live.ids_sorted();
    let ids: Vec<u64> = v.alpha.ids.iter().copied().chain(std::iter::once(v.alpha.outsider)).collect();
    for id in ids {
        for form in 0..5 {
            let r = crate::common::catch(|| match form {
                0 => v.live.add(id, Vec::new()),
                1 => v.live.add_slice(id, &[]),
                2 => v.live.add_string(id, String::new()),
                // empty, but owning an allocation: a cleared scratch buffer, a reserved but never filled vector
                3 => {
                    let mut scratch = vec![7u8; 64];
                    scratch.clear();
                    v.live.add(id, scratch)
                }
                _ => v.live.add_string(id, String::with_capacity(32)),
            });
            let fname = ["Vec", "slice", "String", "cleared Vec with capacity", "String with capacity"][form];
            match r {
                Ok(Err(_)) => {}
                Ok(Ok(())) => bad.push(("empty-add-accepted".to_string(), format!("add_tile({id}, empty {fname}) returned Ok"))),
                Err(p) => bad.push(("empty-add-panic".to_string(), format!("add_tile({id}, empty {fname}) panics: {p}"))),
            }
            if v.live.snapshot() != before_snap {
                bad.push(("empty-add-changed-state".to_string(), format!("add_tile({id}, empty {fname}) changed the internal maps")));
                return bad;
            }
        }
    }
    if observe(v.live, v.alpha) != before_obs || v.live.ids_sorted() != before_ids {
        bad.push(("empty-add-changed-observations".to_string(), "refused adds changed what lookups/listing return".to_string()));
    }
    bad
}

fn zero_len_lists() -> Vec<(Vec<SEntry>, usize)> {
    // directories of size 1..4 with a zero length at every index; other fields from a reduced alphabet
    let mut out = Vec::new();
    let alts: [(u64, u32, u64); 3] = [(1, 1, 0), (128, 0, 1 << 32), (1 << 33, 2, 5)];
    for n in 1..=4usize {
        for z in 0..n {
            for variant in 0..3usize {
                let mut es = Vec::new();
                let mut id = 0u64;
                let mut off = 0u64;
                for i in 0..n {
                    let (d, run, o) = alts[(i + variant) % 3];
                    id += d.max(u64::from(run));
                    let len = if i == z { 0 } else { 1 + (i as u32) * 127 };
                    let offset = if (i + variant) % 2 == 0 { off } else { o };
                    es.push(SEntry::new(id, offset, len, run));
                    off = offset + u64::from(len);
                }
                out.push((es, z));
            }
        }
    }
    for z in [0usize, 500, 999] {
        let mut es = Vec::new();
        for i in 0..1000u64 {
            es.push(SEntry::new(i * 3, i * 10, if i as usize == z { 0 } else { 10 }, 1));
        }
        out.push((es, z));
    }
    out
}

pub fn run(tier: &str) -> i32 {
    let rep = Report::new("C19", tier, "model_checking");
    let thorough = rep.thorough();
    rep.rule("(a) add_tile(id, empty) as Vec/&[u8]/String/cleared Vec with capacity/String with capacity for every alphabet id in every state of the C04 history search (BFS to fix-point): Err, hook snapshot and all observations unchanged; (b) zero-length entry at every index of directories of size 1..4 and at {0,500,999} of 1000: parser (bytes from the spec encoder) and serialiser refuse, x4 compressions x sync/async, and archives carrying one in root or leaf do not open; (c) metadata of every non-object JSON kind refused on open - including arrays holding objects and strings whose text is a JSON object or another JSON document -, objects accepted; (d) internal compression Unknown refused by writer, by open and by the six codec helpers; non-trivial = all cases (each is a rejection or its accepting control)");

    // ---- (a) history clause
    let alpha = Alphabet::new(thorough);
    let (stats, complete, samples) = explore(&alpha, &empty_add_oracle, &|k, d, c| rep.violation(k, d, c), if thorough { 3_000_000 } else { 400_000 });
    rep.eval(stats.transitions * 2);
    rep.nontrivial(stats.states);
    rep.set("states", json!(stats.states));
    rep.set("transitions", json!(stats.transitions));
    rep.set("traces_validated_against_impl", json!(stats.transitions * 2));
    rep.set("fixpoint_reached", json!(complete));
    rep.count("refused_adds_checked", stats.transitions * 2 * 5 * (alpha.ids.len() as u64 + 1));
    if !complete {
        rep.not_exhaustive("state cap reached before the fix-point");
    }
    for s in samples.into_iter().take(2) {
        rep.force_sample(s);
    }

    // ---- (b) zero-length entries
    let lists = zero_len_lists();
    let res: Vec<_> = lists
        .par_iter()
        .flat_map_iter(|(es, z)| {
            let mut bad = Vec::new();
            for c in COMPS {
                let spec_bytes = codec::compress(comp_code(c), &dir::encode(es));
                let case = json!({"kind":"zero-length","index":z,"comp":cname(c),"entries":entries_json(es)});
                for (api, r) in [("sync", dir_read_sync(&spec_bytes, c)), ("async", dir_read_async(&spec_bytes, c))] {
                    if !r.is_err() {
                        bad.push((format!("zero-length-parsed/{api}"), format!("directory of {} entries with length 0 at index {z}: parser returned {}", es.len(), r.kind()), case.clone()));
                    }
                }
                for (api, r) in [("sync", dir_write_sync(es, c)), ("async", dir_write_async(es, c))] {
                    if !r.is_err() {
                        bad.push((format!("zero-length-serialised/{api}"), format!("directory of {} entries with length 0 at index {z}: serialiser returned {}", es.len(), r.kind()), case.clone()));
                    }
                }
                // the accepting control: same list with the zero replaced
                let mut ok = es.clone();
                ok[*z].length = 9;
                let okb = codec::compress(comp_code(c), &dir::encode(&ok));
                if !matches!(dir_read_sync(&okb, c), Out::Ok(ref b) if *b == ok) {
                    bad.push(("control-rejected".to_string(), "the same directory with a positive length is not parsed".to_string(), case.clone()));
                }
            }
            bad
        })
        .collect();
    // an encoded length that is a non-zero multiple of 2^32 must not come out as an entry of length 0 either
    for comp in 1..=4u8 {
        let c = comp_of_code(comp).unwrap();
        for len in [1u64 << 32, 2 << 32, (1 << 32) * 1000, 1 << 63] {
            for at in [0usize, 1] {
                let mut raw: Vec<u64> = vec![2, 5, 3, 1, 1, 7, 7, 4, 0];
                raw[5 + at] = len;
                let mut b = Vec::new();
                for v in raw.iter() {
                    crate::spec::varint::put(&mut b, *v);
                }
                let packed = codec::compress(comp, &b);
                for (api, r) in [("sync", dir_read_sync(&packed, c)), ("async", dir_read_async(&packed, c))] {
                    match r {
                        Out::Err(_) => {}
                        Out::Ok(es) if es.iter().all(|e| e.length != 0) && false => {}
                        o => rep.violation(format!("length-multiple-of-2^32-parsed/{api}"), format!("encoded entry length {len} (does not fit 32 bits): parser returned {}", o.describe()), json!({"kind":"len-2^32","len":len.to_string(),"comp":comp,"at":at})),
                    }
                }
            }
        }
    }
    rep.eval((lists.len() * 4 * 5) as u64 + 64);
    rep.nontrivial(lists.len() as u64);
    rep.count("zero_length_directories", lists.len() as u64);
    for (k, d, c) in res {
        rep.violation(k, d, c);
    }
    // archives whose root or leaf carries a zero-length entry
    let mut na = 0u64;
    for comp in 1..=4u8 {
        for in_leaf in [false, true] {
            for pos in 0..3usize {
                let mut tiles = vec![SEntry::new(1, 0, 2, 1), SEntry::new(2, 2, 2, 1), SEntry::new(9, 0, 2, 2)];
                tiles[pos].length = 0;
                let nodes: Vec<Node> = tiles.iter().map(|e| Node::Tile(*e)).collect();
                let root = if in_leaf { vec![Node::Leaf(1, nodes)] } else { nodes };
                let f = encode_foreign(&root, b"AABB", Some(b"{}"), comp, &Layout::default(), SHeader { tile_type: 2, tile_compression: 1, ..SHeader::default() });
                na += 1;
                for api in APIS {
                    match open_view(&f.bytes, api, &[]) {
                        Err(e) if !e.starts_with("PANIC") => {}
                        other => rep.violation(
                            format!("zero-length-archive-opened/{}", api.name()),
                            format!("archive with a zero-length entry in its {} opened: {:?}", if in_leaf { "leaf" } else { "root" }, other.map(|v| v.ids)),
                            json!({"kind":"zero-length-archive","comp":comp,"in_leaf":in_leaf,"pos":pos}),
                        ),
                    }
                }
            }
        }
    }
    rep.eval(na * 2);
    rep.nontrivial(na);
    rep.count("zero_length_archives", na);

    // ---- (c) metadata kinds
    // every JSON value kind, and non-objects that *contain* or *spell* an object: an object inside an array, and strings
    // whose text is itself a JSON document (a reader that unwraps or re-parses must still refuse them)
    let metas: [(&str, bool); 27] = [
        ("null", false), ("true", false), ("false", false), ("0", false), ("-1.5", false), ("\"\"", false), ("\"s\"", false),
        ("[]", false), ("[{}]", false), ("[1,{\"a\":2}]", false), ("{}", true), ("{\"a\":[1]}", true),
        (" null\n", false), ("1E2", false), ("18446744073709551616", false), ("[[{}]]", false), ("[null]", false),
        ("\"{}\"", false), ("\"{\\\"name\\\":\\\"x\\\"}\"", false), ("\" { \\\"a\\\" : [1, 2] } \"", false), ("\"\\\"{}\\\"\"", false),
        ("\"[]\"", false), ("\"null\"", false), ("\"\\u007b\\u007d\"", false),
        (" {\n} ", true), ("{\"\":{}}", true), ("{\"a\":\"{}\"}", true),
    ];
    // ... and long non-object documents made of multi-byte characters (every character width x every shift), which a
    // refusal that quotes the start of the document must survive
    let mut long_docs: Vec<String> = Vec::new();
    for ch in ["\u{e9}", "\u{20ac}", "\u{1F600}"] {
        for shift in 0..ch.len() {
            long_docs.push(format!("\"{}{}\"", "a".repeat(shift), ch.repeat(70)));
            long_docs.push(format!("[{}\"{}\"]", " ".repeat(shift), ch.repeat(70)));
        }
    }
    let metas: Vec<(&str, bool)> = metas.iter().copied().chain(long_docs.iter().map(|d| (d.as_str(), false))).collect();
    let mut nm = 0u64;
    for comp in 1..=4u8 {
        for (m, accept) in metas.iter() {
            let f = encode_foreign(&[Node::Tile(SEntry::new(0, 0, 2, 1))], b"AA", Some(m.as_bytes()), comp, &Layout::default(), SHeader { tile_type: 2, tile_compression: 1, ..SHeader::default() });
            nm += 1;
            for api in APIS {
                let r = open_view(&f.bytes, api, &[0]);
                let case = json!({"kind":"metadata","meta":m,"comp":comp,"api":api.name()});
                match (accept, r) {
                    (true, Ok(_)) => {}
                    (false, Err(e)) if !e.starts_with("PANIC") => {}
                    (true, Err(e)) => rep.violation(format!("metadata-object-refused/{}", api.name()), format!("metadata {m} refused: {e}"), case),
                    (false, Ok(_)) => rep.violation(format!("metadata-non-object-accepted/{}", api.name()), format!("archive with metadata {m} opened"), case),
                    (false, Err(e)) => rep.violation(format!("metadata-panic/{}", api.name()), format!("metadata {m}: {e}"), case),
                }
            }
        }
    }
    rep.eval(nm * 2);
    rep.nontrivial(nm);
    rep.count("metadata_kind_archives", nm);

    // ---- (d) Unknown internal compression
    let mut nu = 0u64;
    for api in APIS {
        for nt in 0..3usize {
            let mut l = Logical::new(Compression::Unknown);
            for i in 0..nt {
                l.tiles.insert(i as u64, vec![b'A' + i as u8]);
            }
            nu += 1;
            match write_lib(&l, api) {
                Err(e) if !e.starts_with("PANIC") => {}
                other => rep.violation(format!("unknown-compression-written/{}", api.name()), format!("writer with internal compression Unknown: {}", other.map(|b| format!("Ok({} bytes)", b.len())).unwrap_or_else(|e| e)), json!({"kind":"unknown-write","api":api.name(),"tiles":nt})),
            }
        }
    }
    // header byte 0 on otherwise valid archives (also with metadata length 0 and/or root length 0)
    for base_comp in 1..=4u8 {
        for (with_meta, with_root) in [(true, true), (false, true), (true, false), (false, false)] {
            let root: Vec<Node> = if with_root { vec![Node::Tile(SEntry::new(0, 0, 2, 1))] } else { vec![] };
            let mut f = encode_foreign(&root, b"AA", if with_meta { Some(b"{}") } else { None }, base_comp, &Layout::default(), SHeader { tile_type: 2, tile_compression: 1, ..SHeader::default() });
            if !with_root {
                // root length 0: zero-length root section
                f.bytes[16..24].copy_from_slice(&0u64.to_le_bytes());
            }
            f.bytes[97] = 0;
            nu += 1;
            // range-filtered opens (also empty and inverted ranges) must refuse it just the same
            for (lo, hi) in [(5u64, 5u64), (9, 3), (0, 1), (0, u64::MAX)] {
                let r1 = crate::common::catch(|| PMTiles::from_bytes_partially(f.bytes.as_slice(), lo..hi).map(|p| p.num_tiles()).map_err(|e| e.to_string()));
                let r2 = crate::common::catch(|| block_on(PMTiles::from_async_reader_partially(futures::io::Cursor::new(f.bytes.as_slice()), lo..hi)).map(|p| p.num_tiles()).map_err(|e| e.to_string()));
                for (api, r) in [("sync", r1), ("async", r2)] {
                    if !matches!(r, Ok(Err(_))) {
                        rep.violation(
                            format!("unknown-compression-opened-partially/{api}"),
                            format!("archive with internal compression byte 0 (metadata {}, root {}) opened with range {lo}..{hi}: {r:?}", if with_meta { "present" } else { "empty" }, if with_root { "present" } else { "empty" }),
                            json!({"kind":"unknown-open-partial","comp":base_comp,"with_meta":with_meta,"with_root":with_root,"api":api,"range":[lo.to_string(), hi.to_string()]}),
                        );
                    }
                }
            }
            for api in APIS {
                match open_view(&f.bytes, api, &[0]) {
                    Err(e) if !e.starts_with("PANIC") => {}
                    other => rep.violation(
                        format!("unknown-compression-opened/{}", api.name()),
                        format!("archive with internal compression byte 0 (metadata {}, root {}): {}", if with_meta { "present" } else { "empty" }, if with_root { "present" } else { "empty" }, other.map(|_| "opened".to_string()).unwrap_or_else(|e| e)),
                        json!({"kind":"unknown-open","comp":base_comp,"with_meta":with_meta,"with_root":with_root,"api":api.name()}),
                    ),
                }
            }
        }
    }
    // directory codec and the six helpers
    let es = [SEntry::new(0, 0, 1, 1)];
    let mut helper = |name: &str, refused: bool| {
        nu += 1;
        if !refused {
            rep.violation(format!("unknown-compression-helper/{name}"), format!("{name}(Compression::Unknown, ..) did not return an error"), json!({"kind":"unknown-helper","helper":name}));
        }
    };
    helper("Directory::to_writer", dir_write_sync(&es, Compression::Unknown).is_err());
    helper("Directory::to_async_writer", dir_write_async(&es, Compression::Unknown).is_err());
    helper("Directory::from_bytes", dir_read_sync(&dir::encode(&es), Compression::Unknown).is_err());
    helper("Directory::from_async_reader", dir_read_async(&dir::encode(&es), Compression::Unknown).is_err());
    helper("compress_all", call(|| compress_all(Compression::Unknown, b"x")).is_err());
    helper("decompress_all", call(|| decompress_all(Compression::Unknown, b"x")).is_err());
    helper("compress", call(|| { let mut o = Vec::new(); compress(Compression::Unknown, &mut o).map(|_| ()) }).is_err());
    helper("decompress", call(|| { let mut i = std::io::Cursor::new(b"x".to_vec()); decompress(Compression::Unknown, &mut i).map(|_| ()) }).is_err());
    helper("compress_async", call(|| { let mut o = Vec::new(); compress_async(Compression::Unknown, &mut o).map(|_| ()) }).is_err());
    helper("decompress_async", call(|| { let mut i = futures::io::Cursor::new(b"x".to_vec()); decompress_async(Compression::Unknown, &mut i).map(|_| ()) }).is_err());
    let _ = block_on(async {});
    rep.eval(nu);
    rep.nontrivial(nu);
    rep.count("unknown_compression_cases", nu);
    rep.force_sample(json!({"kind":"zero-length","index":1,"entries":entries_json(&zero_len_lists()[4].0)}));
    rep.force_sample(json!({"kind":"metadata","meta":"[{}]","comp":2}));
    rep.finish()
}

pub fn replay(case: &Value) -> Vec<String> {
    match case["kind"].as_str() {
        Some("history") => super::c04::replay_with(case, &empty_add_oracle),
        Some("zero-length") => {
            let es = entries_from_json(&case["entries"]);
            let c = crate::common::comp_from_name(case["comp"].as_str().unwrap_or("none"));
            let mut out = Vec::new();
            let b = codec::compress(comp_code(c), &dir::encode(&es));
            if !dir_read_sync(&b, c).is_err() || !dir_read_async(&b, c).is_err() {
                out.push("parser accepts a zero-length entry".into());
            }
            if !dir_write_sync(&es, c).is_err() || !dir_write_async(&es, c).is_err() {
                out.push("serialiser accepts a zero-length entry".into());
            }
            out
        }
        Some(kind) => {
            // the remaining case kinds are enumerated deterministically: re-run the whole check and report its verdict
            println!("replay of case kind '{kind}': re-running the C19 enumeration");
            if run("quick") == 0 { vec![] } else { vec![format!("the C19 enumeration still reports violations (case kind {kind})")] }
        }
        None => vec![],
    }
}

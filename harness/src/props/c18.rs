//! C18 - the archive writer honours the stream's starting position.
use super::gen::*;
use super::scen::small_logical;
use crate::common::{block_on, catch, cname, comp_from_name, COMPS};
use crate::env::{Chooser, DefaultChooser, Handle, Uniform};
use crate::model::*;
use crate::report::Report;
use pmtiles2::{Compression, PMTiles};
use rayon::prelude::*;
use serde_json::{json, Value};

const POSITIONS: [u64; 9] = [0, 1, 10, 126, 127, 128, 4096, 16_384, 70_000];
const PREFILLS: [&str; 3] = ["empty", "pattern-P", "pattern-P+100000"];
/// how the stream takes the writer's bytes: every write whole; at most 3 bytes per write call; at most 1000 bytes per
/// call and every asynchronous call pending once first
const SINKS: [&str; 3] = ["whole", "short-3", "short-1000+pending"];

fn chooser_of(sink: &str) -> Box<dyn Chooser> {
    match sink {
        "short-3" => Box::new(Uniform { max: 3, pending_each: 0 }),
        "short-1000+pending" => Box::new(Uniform { max: 1000, pending_each: 1 }),
        _ => Box::new(DefaultChooser),
    }
}

fn pattern(n: usize) -> Vec<u8> {
    (0..n).map(|i| (i as u32).wrapping_mul(2_654_435_761).to_le_bytes()[3] | 1).collect()
}

fn write_at(l: &Logical, api: Api, p: u64, prefill: &str, sink: &str) -> Result<(Vec<u8>, u64, Vec<u8>), String> {
    let before: Vec<u8> = match prefill {
        "empty" => Vec::new(),
        "pattern-P" => pattern(p as usize),
        _ => pattern(p as usize + 100_000),
    };
    let h = Handle::new(before.clone(), chooser_of(sink)).at(p);
    let r = catch(|| -> std::io::Result<()> {
        match api {
            Api::Sync => {
                let mut pm = PMTiles::<std::io::Cursor<Vec<u8>>>::default();
                fill(&mut pm, l);
                pm.to_writer(&mut h.sync())
            }
            Api::Async => {
                let mut pm = PMTiles::<futures::io::Cursor<Vec<u8>>>::default();
                fill(&mut pm, l);
                block_on(pm.to_async_writer(&mut h.asyn()))
            }
        }
    });
    match r {
        Ok(Ok(())) => Ok((h.data(), h.pos(), before)),
        Ok(Err(e)) => Err(format!("write fails: {e}")),
        Err(pn) => Err(format!("PANIC {pn}")),
    }
}

fn fill<R>(pm: &mut PMTiles<R>, l: &Logical) {
    let s = &l.settings;
    pm.tile_type = s.tile_type;
    pm.tile_compression = s.tile_compression;
    pm.internal_compression = s.internal;
    pm.min_zoom = s.min_zoom;
    pm.max_zoom = s.max_zoom;
    pm.center_zoom = s.center_zoom;
    pm.min_longitude = s.coords[0];
    pm.min_latitude = s.coords[1];
    pm.max_longitude = s.coords[2];
    pm.max_latitude = s.coords[3];
    pm.center_longitude = s.coords[4];
    pm.center_latitude = s.coords[5];
    pm.meta_data = l.meta.clone();
    for (id, c) in l.tiles.iter() {
        pm.add_tile(*id, c.clone()).unwrap();
    }
}

pub fn subjects() -> Vec<(String, Logical)> {
    subjects_t(false)
}

pub fn subjects_t(thorough: bool) -> Vec<(String, Logical)> {
    let mut v = Vec::new();
    if thorough {
        // 5.2 million entries with ids 1.1e12 apart and no compression: more than 1251 leaf directories of the default
        // size, whose 13-byte pointers do not fit the root either - the only way to make the archive writer itself
        // double its leaf size and rewind (through the utility that is C06's subject with small initial leaf sizes)
        let mut l = Logical::new(Compression::None);
        for k in 0..5_200_000u64 {
            l.tiles.insert(k * 1_100_000_000_000, vec![b'x']);
        }
        v.push(("leaf-size-doubling/none".to_string(), l));
    }
    for c in COMPS {
        v.push((format!("empty/{}", cname(c)), Logical::new(c)));
        v.push((format!("three-tiles/{}", cname(c)), small_logical(c)));
    }
    for c in [Compression::None, Compression::GZip, Compression::ZStd] {
        let n = crossing(1, c, &window_logical_entries) + 25;
        v.push((format!("leaf-spill/{}", cname(c)), window_logical(1, n, c)));
    }
    v
}

pub fn check_one(l: &Logical, api: Api, p: u64, prefill: &str, sink: &str, at_zero: &[u8]) -> Vec<(String, String)> {
    let mut bad = Vec::new();
    let (img, pos, before) = match write_at(l, api, p, prefill, sink) {
        Ok(x) => x,
        Err(e) => return vec![(if e.starts_with("PANIC") { "panic".into() } else { "write-fails".into() }, e)],
    };
    let pu = p as usize;
    let l0 = at_zero.len();
    // bytes before P untouched
    let want_prefix: Vec<u8> = if prefill == "empty" { vec![0u8; pu] } else { before[..pu].to_vec() };
    if img.len() < pu || img[..pu] != want_prefix[..] {
        let i = img.iter().zip(want_prefix.iter()).position(|(a, b)| a != b).unwrap_or(0);
        bad.push(("prefix-clobbered".into(), format!("bytes before the starting position were modified (first difference at byte {i})")));
    }
    // archive occupies [P, P+L)
    if img.len() < pu + l0 || img[pu..pu + l0] != at_zero[..] {
        let magic_at = img.windows(7).position(|w| w == b"PMTiles");
        bad.push(("archive-not-at-start-position".into(), format!("bytes from the starting position on are not the archive (magic found at {magic_at:?}, expected at {p})")));
    } else {
        // reading the bytes from P on yields the archive that was written
        match open_view(&img[pu..], Api::Sync, &probes_for(l, &[])) {
            Ok(v) => {
                if let Some((c, d)) = compare_view(l, &v).into_iter().next() {
                    bad.push((format!("reads-back-wrong/{c}"), d));
                }
            }
            Err(e) => bad.push(("does-not-open".into(), e)),
        }
    }
    if pos != p + l0 as u64 {
        bad.push(("final-position".into(), format!("stream left at position {pos}, archive ends at {}", p + l0 as u64)));
    }
    // pre-filled bytes behind the archive must not have been touched beyond what the archive itself occupies
    if prefill == "pattern-P+100000" && img.len() == before.len() && img[pu + l0.min(100_000)..] != before[pu + l0.min(100_000)..] {
        bad.push(("suffix-clobbered".into(), "bytes behind the end of the archive were modified".into()));
    }
    bad
}

pub fn run(tier: &str) -> i32 {
    let rep = Report::new("C18", tier, "exploration");
    rep.rule("start positions P in {0,1,10,126,127,128,4096,16384,70000} x stream {empty (zero-extended to P), pre-filled with a position-dependent pattern of P bytes, pre-filled with P+100000 bytes} x archives {0 tiles, 3 tiles (4 compressions), leaf spill (none/gzip/zstd); thorough: 5.2 million sparse entries, which make the archive writer double its leaf size} x {sync,async} writer, each also into streams that take at most 3 (small archives) or 1000 bytes per write call (asynchronous calls pending once first); oracle: bytes [0,P) untouched, bytes [P,P+L) identical to the archive written at P=0, final position P+L, image[P..] opens to the logical archive; non-trivial = cases with P>0");
    let subs = subjects_t(rep.thorough());
    let mut positions: Vec<u64> = POSITIONS.to_vec();
    if rep.thorough() {
        positions.extend(0..=300);
        positions.extend((9..=20).flat_map(|k| [(1u64 << k) - 1, 1 << k, (1 << k) + 1]));
        positions.sort_unstable();
        positions.dedup();
    }
    let mut jobs = Vec::new();
    for (si, _) in subs.iter().enumerate() {
        if subs[si].0.starts_with("leaf-size-doubling") {
            // a 70 MB archive: two positions, one sink
            jobs.push((si, Api::Sync, 0, "empty", "whole"));
            jobs.push((si, Api::Sync, 4096, "pattern-P", "whole"));
            jobs.push((si, Api::Async, 1_000_000, "empty", "whole"));
            continue;
        }
        for api in APIS {
            for p in positions.iter().copied() {
                for pf in PREFILLS {
                    jobs.push((si, api, p, pf, "whole"));
                }
                // fragmenting streams: 3-byte writes for the small archives, 1000-byte writes (+ Pending) for all
                if !subs[si].0.starts_with("leaf-spill") {
                    jobs.push((si, api, p, "pattern-P", "short-3"));
                }
                jobs.push((si, api, p, "pattern-P+100000", "short-1000+pending"));
            }
        }
    }
    // reference images written at position 0
    let refs: Vec<Vec<Result<Vec<u8>, String>>> = subs.iter().map(|(_, l)| APIS.iter().map(|a| write_lib(l, *a)).collect()).collect();
    let res: Vec<_> = jobs
        .par_iter()
        .map(|(si, api, p, pf, sink)| {
            let at0 = &refs[*si][if *api == Api::Sync { 0 } else { 1 }];
            match at0 {
                Ok(a) => (*si, *api, *p, *pf, *sink, check_one(&subs[*si].1, *api, *p, pf, sink, a)),
                Err(e) => (*si, *api, *p, *pf, *sink, vec![("reference-write-fails".to_string(), e.clone())]),
            }
        })
        .collect();
    rep.eval(jobs.len() as u64);
    rep.nontrivial(jobs.iter().filter(|j| j.2 > 0).count() as u64);
    rep.count("writes", jobs.len() as u64);
    rep.count("writes_into_fragmenting_streams", jobs.iter().filter(|j| j.4 != "whole").count() as u64);
    for (si, api, p, pf, sink, bad) in res {
        for (k, d) in bad {
            rep.violation(format!("{k}/{}", api.name()), format!("[{} P={p} {pf} {sink}] {d}", subs[si].0), json!({"kind":"start-position","subject":subs[si].0,"writer":api.name(),"P":p,"prefill":pf,"sink":sink}));
        }
    }
    rep.force_sample(json!({"kind":"start-position","subject":"three-tiles/gzip","writer":"sync","P":10,"prefill":"pattern-P"}));
    rep.force_sample(json!({"kind":"start-position","subject":"leaf-spill/none","writer":"async","P":70000,"prefill":"empty"}));
    let _ = comp_from_name("none");
    rep.finish()
}

pub fn replay(case: &Value) -> Vec<String> {
    let name = case["subject"].as_str().unwrap_or("");
    let api = if case["writer"].as_str() == Some("async") { Api::Async } else { Api::Sync };
    let Some((_, l)) = subjects_t(name.starts_with("leaf-size-doubling")).into_iter().find(|s| s.0 == name) else { return vec![format!("unknown subject {name}")] };
    let pf = PREFILLS.into_iter().find(|p| Some(*p) == case["prefill"].as_str()).unwrap_or("empty");
    match write_lib(&l, api) {
        Ok(a) => check_one(&l, api, case["P"].as_u64().unwrap_or(0), pf, SINKS.into_iter().find(|p| Some(*p) == case["sink"].as_str()).unwrap_or("whole"), &a).into_iter().map(|(k, d)| format!("{k}: {d}")).collect(),
        Err(e) => vec![e],
    }
}

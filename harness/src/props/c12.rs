//! C12 - synchronous and asynchronous APIs are observationally equivalent.
use super::c06::LeafSize;
use super::foreign;
use super::gen::*;
use super::util::*;
use crate::common::{block_on, catch, cname, comp_code, comp_from_name, COMPS};
use crate::model::*;
use crate::report::{hex, Report};
use crate::spec::codec;
use crate::spec::dir::{self, SEntry};
use crate::spec::header::SHeader;
use pmtiles2::util::{read_directories, read_directories_async, write_directories, write_directories_async};
use pmtiles2::{Compression, PMTiles, VerifSnapshot};
use rayon::prelude::*;
use serde_json::{json, Value};
use std::ops::Bound;

type Rng = (Bound<u64>, Bound<u64>);

fn open_both(bytes: &[u8], range: Rng, probes: &[u64]) -> (Result<(View, VerifSnapshot), String>, Result<(View, VerifSnapshot), String>) {
    let s = match catch(|| PMTiles::from_bytes_partially(bytes, range).map(|mut pm| (view_sync(&mut pm, probes), pm.verif_snapshot())).map_err(|e| e.to_string())) {
        Ok(r) => r,
        Err(p) => Err(format!("PANIC {p}")),
    };
    let a = match catch(|| block_on(PMTiles::from_async_reader_partially(futures::io::Cursor::new(bytes), range)).map(|mut pm| (view_async(&mut pm, probes), pm.verif_snapshot())).map_err(|e| e.to_string())) {
        Ok(r) => r,
        Err(p) => Err(format!("PANIC {p}")),
    };
    (s, a)
}

/// both readers handed a stream that does not stand at position 0 (the header was inspected first, a cursor is re-used,
/// the stream stands at its end): same outcome on both sides
fn readers_agree_at(bytes: &[u8], pos: u64, probes: &[u64]) -> Option<(String, String)> {
    let s = catch(|| {
        let mut c = std::io::Cursor::new(bytes);
        c.set_position(pos);
        PMTiles::from_reader(c).map(|mut pm| view_sync(&mut pm, probes)).map_err(|e| e.to_string())
    })
    .unwrap_or_else(|p| Err(format!("PANIC {p}")));
    let a = catch(|| {
        let mut c = futures::io::Cursor::new(bytes);
        c.set_position(pos);
        block_on(PMTiles::from_async_reader(c)).map(|mut pm| view_async(&mut pm, probes)).map_err(|e| e.to_string())
    })
    .unwrap_or_else(|p| Err(format!("PANIC {p}")));
    match (s, a) {
        (Ok(mut vs), Ok(mut va)) => {
            for v in [&mut vs, &mut va] {
                for t in v.tiles.values_mut() {
                    if t.is_err() {
                        *t = Err("error".into());
                    }
                }
            }
            (vs != va).then(|| ("open-at-position-values-differ".into(), format!("readers handed the stream at position {pos} return different content")))
        }
        (Err(x), Err(y)) => (x.starts_with("PANIC") || y.starts_with("PANIC")).then(|| ("open-at-position-panic".into(), format!("stream at position {pos}: sync: {x}; async: {y}"))),
        (Ok(_), Err(e)) => Some(("open-at-position-only-async-fails".into(), format!("stream handed over at position {pos}: the async reader fails ({e}) where the sync reader succeeds"))),
        (Err(e), Ok(_)) => Some(("open-at-position-only-sync-fails".into(), format!("stream handed over at position {pos}: the sync reader fails ({e}) where the async reader succeeds"))),
    }
}

/// both readers on the same bytes: same value, or an error on both sides
pub fn readers_agree(bytes: &[u8], range: Rng, probes: &[u64]) -> Option<(String, String)> {
    if range == (Bound::Unbounded, Bound::Unbounded) && bytes.len() < 50_000 {
        for pos in [1u64, 127, bytes.len() as u64] {
            if let Some(x) = readers_agree_at(bytes, pos, &probes[..probes.len().min(3)]) {
                return Some(x);
            }
        }
    }
    match open_both(bytes, range, probes) {
        (Ok((mut vs, ss)), Ok((mut va, sa))) => {
            // error texts are not part of the contract: an error on both sides is agreement
            for v in [&mut vs, &mut va] {
                for t in v.tiles.values_mut() {
                    if t.is_err() {
                        *t = Err("error".into());
                    }
                }
            }
            if vs != va {
                return Some(("open-values-differ".into(), format!("sync and async readers return different content for range {range:?}: {} vs {} tiles", vs.num_tiles, va.num_tiles)));
            }
            if ss != sa {
                return Some(("open-internal-state-differs".into(), "sync and async readers build different tile tables".into()));
            }
            None
        }
        (Err(a), Err(b)) => {
            if a.starts_with("PANIC") || b.starts_with("PANIC") {
                Some(("open-panic".into(), format!("sync: {a}; async: {b}")))
            } else {
                None
            }
        }
        (Ok(_), Err(e)) => Some(("open-only-async-fails".into(), format!("async reader fails where the sync reader succeeds: {e}"))),
        (Err(e), Ok(_)) => Some(("open-only-sync-fails".into(), format!("sync reader fails where the async reader succeeds: {e}"))),
    }
}

fn ranges(ids: &[u64]) -> Vec<Rng> {
    let mut v: Vec<Rng> = vec![(Bound::Unbounded, Bound::Unbounded)];
    if let (Some(f), Some(l)) = (ids.first(), ids.last()) {
        let mid = ids[ids.len() / 2];
        v.push((Bound::Included(mid), Bound::Unbounded));
        v.push((Bound::Excluded(*f), Bound::Excluded(*l)));
        v.push((Bound::Unbounded, Bound::Included(mid)));
        v.push((Bound::Included(*l), Bound::Included(*f)));
    }
    v
}

pub fn check_logical(l: &Logical) -> Vec<(String, String)> {
    let mut bad = Vec::new();
    let bs = write_lib(l, Api::Sync);
    let ba = write_lib(l, Api::Async);
    let (bs, ba) = match (bs, ba) {
        (Ok(a), Ok(b)) => (a, b),
        (Err(a), Err(b)) if !a.starts_with("PANIC") && !b.starts_with("PANIC") => return bad,
        (a, b) => return vec![("write-outcomes-differ".into(), format!("sync writer: {:?}; async writer: {:?}", a.map(|x| x.len()), b.map(|x| x.len())))],
    };
    if l.settings.internal == Compression::None && bs != ba {
        let i = bs.iter().zip(ba.iter()).position(|(x, y)| x != y).unwrap_or(bs.len().min(ba.len()));
        bad.push(("uncompressed-bytes-differ".into(), format!("without a codec the sync and async writers must emit identical bytes; lengths {} vs {}, first difference at {i}", bs.len(), ba.len())));
    }
    // the async writer over a sink that answers Pending once per call and takes at most 7 (small archives) or 1000
    // bytes per write: same bytes as over the always-ready sink (the sync writer has no such dimension)
    if ba.len() < 2_000_000 {
        match write_lib_async_slow(l, if ba.len() < 600 { 7 } else { 1000 }) {
            Ok(slow) if slow == ba => {}
            Ok(slow) => {
                let i = slow.iter().zip(ba.iter()).position(|(x, y)| x != y).unwrap_or(slow.len().min(ba.len()));
                bad.push(("async-writer-depends-on-pending".into(), format!("the async writer emits different bytes into a sink that is Pending once per call (lengths {} vs {}, first difference at {i})", slow.len(), ba.len())));
            }
            Err(e) => bad.push(("async-writer-fails-on-pending-sink".into(), e)),
        }
    }
    let probes = probes_for(l, &[]);
    let ids: Vec<u64> = l.tiles.keys().copied().collect();
    let mut views = Vec::new();
    for (wn, b) in [("sync", &bs), ("async", &ba)] {
        for r in ranges(&ids) {
            if let Some((k, d)) = readers_agree(b, r, &probes) {
                bad.push((k, format!("[{wn} writer's output] {d}")));
            }
        }
        views.push(open_view(b, Api::Sync, &probes));
    }
    // what the async writer produced reads back to the same logical content as what the sync writer produced
    match (&views[0], &views[1]) {
        (Ok(a), Ok(b)) if a == b => {}
        (a, b) => bad.push(("written-content-differs".into(), format!("archives from the sync and the async writer read back differently: {:?} vs {:?}", a.as_ref().map(|v| v.num_tiles), b.as_ref().map(|v| v.num_tiles)))),
    }
    bad
}

pub fn check_dir_bytes(bytes: &[u8], c: Compression) -> Option<(String, String)> {
    let s = dir_read_sync(bytes, c);
    let a = dir_read_async(bytes, c);
    match (&s, &a) {
        (Out::Ok(x), Out::Ok(y)) if x == y => None,
        (Out::Err(_), Out::Err(_)) => None,
        _ => Some(("directory-readers-differ".into(), format!("sync: {}; async: {}", s.describe(), a.describe()))),
    }
}

pub fn check_dir_list(es: &[SEntry], c: Compression) -> Vec<(String, String)> {
    let mut bad = Vec::new();
    let ws = dir_write_sync(es, c);
    let wa = dir_write_async(es, c);
    match (&ws, &wa) {
        (Out::Ok(x), Out::Ok(y)) => {
            if c == Compression::None && x != y {
                bad.push(("directory-bytes-differ".into(), format!("uncompressed serialisations differ: {} vs {}", hex(x), hex(y))));
            }
            for (n, b) in [("sync", x), ("async", y)] {
                if let Some((k, d)) = check_dir_bytes(b, c) {
                    bad.push((k, format!("[{n} writer's output] {d}")));
                }
                match dir_read_sync(b, c) {
                    Out::Ok(back) if back == es => {}
                    o => bad.push(("directory-written-content-differs".into(), format!("[{n} writer's output] reads back as {}", o.describe()))),
                }
            }
        }
        (Out::Err(_), Out::Err(_)) => {}
        _ => bad.push(("directory-writers-differ".into(), format!("sync: {}; async: {}", ws.kind(), wa.kind()))),
    }
    // readers on the independent encoding
    let foreign = codec::compress(comp_code(c), &dir::encode(es));
    if let Some(x) = check_dir_bytes(&foreign, c) {
        bad.push(x);
    }
    bad
}

fn check_write_dirs(es: &[SEntry], c: Compression, ls: LeafSize) -> Vec<(String, String)> {
    let mut bad = Vec::new();
    let le: Vec<pmtiles2::Entry> = es.iter().map(to_lib_entry).collect();
    let opt = |n: usize| match ls {
        LeafSize::Default => None,
        LeafSize::Size(s) => Some(pmtiles2::util::WriteDirsOverflowStrategy::OnlyLeafPointers { start_size: Some(s) }),
        LeafSize::LargerThanList => Some(pmtiles2::util::WriteDirsOverflowStrategy::OnlyLeafPointers { start_size: Some(n + 17) }),
    };
    let s = call(|| {
        let mut o = std::io::Cursor::new(Vec::new());
        let l = write_directories(&mut o, &le, c, opt(es.len()))?;
        let pos = o.position() as usize;
        Ok((o.into_inner()[..pos].to_vec(), l))
    });
    let a = call(|| {
        let mut o = futures::io::Cursor::new(Vec::new());
        let l = block_on(write_directories_async(&mut o, &le, c, opt(es.len())))?;
        let pos = o.position() as usize;
        Ok((o.into_inner()[..pos].to_vec(), l))
    });
    match (&s, &a) {
        (Out::Ok((rs, ls_)), Out::Ok((ra, la))) => {
            if c == Compression::None && (rs != ra || ls_ != la) {
                bad.push(("write-directories-bytes-differ".into(), "uncompressed root/leaf bytes differ between write_directories and write_directories_async".into()));
            }
            // both must resolve to the same mapping through both readers
            let mut maps = Vec::new();
            for (root, leaves) in [(rs, ls_), (ra, la)] {
                let mut stream = root.clone();
                let lo = stream.len() as u64;
                stream.extend_from_slice(leaves);
                let m1 = call(|| read_directories(&mut std::io::Cursor::new(&stream), c, (0, root.len() as u64), lo, ..));
                let m2 = call(|| block_on(read_directories_async(&mut futures::io::Cursor::new(&stream), c, (0, root.len() as u64), lo, ..)));
                match (m1, m2) {
                    (Out::Ok(x), Out::Ok(y)) => {
                        let mut vx: Vec<(u64, u64, u32)> = x.iter().map(|(k, v)| (*k, v.offset, v.length)).collect();
                        let mut vy: Vec<(u64, u64, u32)> = y.iter().map(|(k, v)| (*k, v.offset, v.length)).collect();
                        vx.sort_unstable();
                        vy.sort_unstable();
                        if vx != vy {
                            bad.push(("read-directories-differ".into(), "read_directories and read_directories_async return different maps".into()));
                        }
                        maps.push(vx);
                    }
                    (x, y) => bad.push(("read-directories-outcomes-differ".into(), format!("{} vs {}", x.kind(), y.kind()))),
                }
            }
            if maps.len() == 2 && maps[0] != maps[1] {
                bad.push(("write-directories-content-differs".into(), "what write_directories_async produced resolves to a different mapping than write_directories' output".into()));
            }
        }
        (Out::Err(_), Out::Err(_)) => {}
        _ => bad.push(("write-directories-outcomes-differ".into(), format!("sync: {}; async: {}", s.kind(), a.kind()))),
    }
    bad
}

fn check_header_bytes(b: &[u8]) -> Option<(String, String)> {
    let s = header_read_sync(b);
    let a = header_read_async(b);
    match (&s, &a) {
        (Out::Ok((h1, u1)), Out::Ok((h2, u2))) => {
            if format!("{h1:?}") != format!("{h2:?}") || u1 != u2 {
                return Some(("header-readers-differ".into(), format!("sync {h1:?} ({u1} bytes) vs async {h2:?} ({u2} bytes)")));
            }
            let w1 = header_write_sync(h1);
            let w2 = header_write_async(h1);
            match (w1, w2) {
                (Out::Ok(x), Out::Ok(y)) if x == y => None,
                (x, y) => Some(("header-writers-differ".into(), format!("sync {} vs async {}", x.describe(), y.describe()))),
            }
        }
        (Out::Err(_), Out::Err(_)) => None,
        _ => Some(("header-readers-differ".into(), format!("sync: {}; async: {}", s.kind(), a.kind()))),
    }
}

pub fn run(tier: &str) -> i32 {
    let rep = Report::new("C12", tier, "exploration");
    let thorough = rep.thorough();
    rep.rule("both API twins on ready-immediately streams over the inputs of C01 (all small maps, metadata/settings alphabets), C03 (foreign product), C05 (all lists of <= 2 entries), C06 (crossing sweep; util::write_directories(_async) with initial leaf size default / 4096 / 1000 / 7) and C09 (stored-value sweep, enum/version/magic/truncation cases), plus the rejection inputs of C19; readers: equal values (model view + hook snapshot, directories, headers field-wise, maps) or errors on both sides; writers: outputs read back to equal content by both readers and byte-identical for Compression::None, and the async writer's bytes unchanged over a sink that is Pending once per call and takes 7 / 1000 bytes per write; full and four range-filtered opens, and opens of a stream handed over at position 1 / 127 / its end; non-trivial = inputs with >= 1 tile/entry");
    // (a) logical archives
    let mut items: Vec<Logical> = Vec::new();
    for c in COMPS {
        items.extend(small_maps(if thorough { 6 } else { 5 }, c));
    }
    for c in super::c01::corpus(false).into_iter().filter(|c| c.family == "metadata" || c.family == "settings" || c.family == "cross-product") {
        items.extend(c.items);
    }
    let bad: Vec<(usize, Vec<(String, String)>)> = items.par_iter().enumerate().map(|(i, l)| (i, check_logical(l))).filter(|x| !x.1.is_empty()).collect();
    rep.eval(items.len() as u64 * 12);
    rep.nontrivial(items.iter().filter(|l| !l.tiles.is_empty()).count() as u64);
    rep.count("logical_archives", items.len() as u64);
    for (i, b) in bad {
        for (k, d) in b.into_iter().take(3) {
            rep.violation(k, format!("[{}] {d}", cname(items[i].settings.internal)), json!({"kind":"logical","archive":super::c01::logical_to_json(&items[i])}));
        }
    }
    // scale archive with leaf directories
    for c in [Compression::None, Compression::GZip] {
        let n = crossing(1, c, &window_logical_entries) + 15;
        let l = window_logical(1, n, c);
        rep.eval(12);
        for (k, d) in check_logical(&l) {
            rep.violation(k, d, json!({"kind":"window","n":n,"comp":cname(c)}));
        }
    }
    // metadata above the sizes a reader might cap (16 MiB, 32 MiB)
    for mib in [17usize, 33] {
        let mut l = Logical::new(Compression::ZStd);
        l.tiles.insert(1, b"t".to_vec());
        l.meta.insert("big".into(), serde_json::Value::String("0123456789abcdef".repeat(mib * 65_536)));
        l.meta.insert("k".into(), json!(1));
        rep.eval(2);
        // one write, both readers, full range (the small-archive clauses cover the rest)
        match write_lib(&l, Api::Sync) {
            Ok(b) => {
                if let Some((k, d)) = readers_agree(&b, (Bound::Unbounded, Bound::Unbounded), &[1]) {
                    rep.violation(k, format!("[{mib} MiB metadata] {d}"), json!({"kind":"huge-metadata","mib":mib}));
                }
            }
            Err(e) => rep.violation("write-outcomes-differ", format!("[{mib} MiB metadata] {e}"), json!({"kind":"huge-metadata","mib":mib})),
        }
    }
    rep.count("huge_metadata_archives", 2);
    // damaged directories: whatever the range filter is (also empty and inverted), both twins must refuse alike
    {
        use crate::spec::archive::{encode_foreign, Layout, Node};
        let mut nd = 0u64;
        for comp in 1..=4u8 {
            let f = encode_foreign(&[Node::Tile(SEntry::new(0, 0, 2, 1)), Node::Leaf(5, vec![Node::Tile(SEntry::new(5, 0, 2, 2))])], b"AA", None, comp, &Layout::default(), SHeader { tile_type: 2, tile_compression: 1, ..SHeader::default() });
            let h = f.header.clone();
            for (what, pos) in [("root", h.root_offset as usize), ("leaf", h.leaf_offset as usize)] {
                for garbage in [[0xFFu8, 0xFF, 0xFF, 0xFF], [0x80, 0x80, 0x80, 0x80]] {
                    let mut b = f.bytes.clone();
                    for (i, g) in garbage.iter().enumerate() {
                        if pos + i < b.len() {
                            b[pos + i] = *g;
                        }
                    }
                    for r in [(Bound::Unbounded, Bound::Unbounded), (Bound::Included(5), Bound::Excluded(5)), (Bound::Included(7), Bound::Included(3)), (Bound::Unbounded, Bound::Excluded(0)), (Bound::Included(6), Bound::Unbounded)] {
                        nd += 1;
                        if let Some((k, d)) = readers_agree(&b, r, &[0, 5, 6]) {
                            rep.violation(format!("{k}/damaged-{what}"), format!("[codec {comp}, {what} directory overwritten with {garbage:02x?}, range {r:?}] {d}"), json!({"kind":"damaged","comp":comp,"what":what,"range":format!("{r:?}")}));
                        }
                        let c = comp_of_code(comp).unwrap();
                        let rs = call(|| read_directories(&mut std::io::Cursor::new(&b), c, (h.root_offset, h.root_length), h.leaf_offset, r).map(|m| m.len()));
                        let ra = call(|| block_on(read_directories_async(&mut futures::io::Cursor::new(&b), c, (h.root_offset, h.root_length), h.leaf_offset, r)).map(|m| m.len()));
                        if rs.kind() != ra.kind() || (rs.is_ok() && rs != ra) {
                            rep.violation(format!("read-directories-outcomes-differ/damaged-{what}"), format!("[codec {comp}, range {r:?}] sync {} vs async {}", rs.describe(), ra.describe()), json!({"kind":"damaged","comp":comp,"what":what,"range":format!("{r:?}")}));
                        }
                    }
                }
            }
        }
        rep.eval(nd * 2);
        rep.count("damaged_directory_cases", nd);
    }
    // (b) foreign product
    let specs = foreign::product(thorough);
    let bad: Vec<(usize, Vec<(String, String)>)> = specs
        .par_iter()
        .enumerate()
        .map(|(i, s)| {
            let f = foreign::build(s);
            let ids: Vec<u64> = f.expected.keys().copied().collect();
            let mut probes = ids.clone();
            probes.extend(ids.iter().map(|i| i + 1));
            let mut bad = Vec::new();
            for r in ranges(&ids) {
                if let Some(x) = readers_agree(&f.bytes, r, &probes) {
                    bad.push(x);
                }
            }
            (i, bad)
        })
        .filter(|x| !x.1.is_empty())
        .collect();
    rep.eval(specs.len() as u64 * 5);
    rep.nontrivial(specs.iter().filter(|s| s.n > 0).count() as u64);
    rep.count("foreign_archives", specs.len() as u64);
    for (i, b) in bad {
        for (k, d) in b.into_iter().take(3) {
            rep.violation(k, d, specs[i].to_json());
        }
    }
    for comp in 1..=4u8 {
        let f = foreign::mixed_shorthand(comp);
        let ids: Vec<u64> = f.expected.keys().copied().collect();
        for r in ranges(&ids) {
            if let Some((k, d)) = readers_agree(&f.bytes, r, &ids) {
                rep.violation(format!("{k}/mixed-shorthand"), d, json!({"kind":"mixed-shorthand","comp":comp}));
            }
        }
    }
    // rejection inputs: both sides must refuse
    let mut nrej = 0u64;
    for comp in 1..=4u8 {
        // non-objects, and an object followed by something else (a second document, a stray bracket, text, a NUL byte):
        // whatever one twin makes of the section, the other must make of it too
        for meta in ["null", "[]", "\"s\"", "0", "{\"a\":1}{\"b\":2}", "{\"a\":1} ]", "{\"a\":1} x", "{\"a\":1}\u{0}", "{\"a\":1},", "{}{}", "{\"a\":1}\n\n{\"a\":1}", "{\"a\":1} \n\t ", "\u{feff}{\"a\":1}", "{\"a\":1,}", "{\"a\":01}", "{'a':1}", "{\"a\":NaN}", "{\"a\":1e999}"] {
            use crate::spec::archive::{encode_foreign, Layout, Node};
            let f = encode_foreign(&[Node::Tile(SEntry::new(0, 0, 2, 1))], b"AA", Some(meta.as_bytes()), comp, &Layout::default(), SHeader { tile_type: 2, tile_compression: 1, ..SHeader::default() });
            nrej += 1;
            if let Some((k, d)) = readers_agree(&f.bytes, (Bound::Unbounded, Bound::Unbounded), &[0]) {
                rep.violation(k, format!("metadata {meta}: {d}"), json!({"kind":"reject-meta","meta":meta,"comp":comp}));
            }
        }
        let mut f = foreign::build(&foreign::product(false)[40]);
        f.bytes[97] = 0;
        nrej += 1;
        if let Some((k, d)) = readers_agree(&f.bytes, (Bound::Unbounded, Bound::Unbounded), &[0]) {
            rep.violation(k, format!("unknown compression: {d}"), json!({"kind":"reject-unknown"}));
        }
    }
    rep.eval(nrej);
    rep.count("rejection_archives", nrej);
    // (c) directories: all lists of <= 2 entries over the C05 alphabet (None), all of <= 1 with codecs; zero-length lists
    let firsts = super::c05::extensions_pub(&[], false);
    let n_dirs: u64 = firsts
        .par_iter()
        .map(|f| {
            let mut n = 0u64;
            for c in COMPS {
                n += 1;
                for (k, d) in check_dir_list(&[*f], c) {
                    rep.violation(k, d, json!({"kind":"dir","comp":cname(c),"entries":entries_json(&[*f])}));
                }
            }
            for s in super::c05::extensions_pub(&[*f], true) {
                n += 1;
                for (k, d) in check_dir_list(&[*f, s], Compression::None) {
                    rep.violation(k, d, json!({"kind":"dir","comp":"none","entries":entries_json(&[*f, s])}));
                }
            }
            // a zero-length entry must be refused by both sides
            let mut z = *f;
            z.length = 0;
            for c in COMPS {
                n += 1;
                for (k, d) in check_dir_list(&[z], c) {
                    rep.violation(k, d, json!({"kind":"dir","comp":cname(c),"entries":entries_json(&[z])}));
                }
            }
            n
        })
        .sum();
    rep.eval(n_dirs);
    rep.nontrivial(n_dirs);
    rep.count("directory_lists", n_dirs);
    // (c2) framing variants of the codecs: the same payload as several gzip members / zstd frames, with
    // optional gzip header fields, and with surplus bytes inside the declared length. Whether such a
    // section is acceptable is not decided here - only that both twins decide alike and return equal values.
    {
        let lists: Vec<Vec<SEntry>> = vec![
            vec![SEntry::new(1, 0, 5, 2), SEntry::new(9, 5, 7, 1)],
            (0..300u64).map(|i| SEntry::new(i * 3, i * 11, 11, 1)).collect(),
        ];
        let mut nv = 0u64;
        for es in lists.iter() {
            let plain = dir::encode(es);
            for (code, c) in [(2u8, Compression::GZip), (4u8, Compression::ZStd), (3u8, Compression::Brotli)] {
                let whole = codec::compress(code, &plain);
                let mut variants: Vec<(&str, Vec<u8>)> = Vec::new();
                for cut in [1usize, plain.len() / 2, plain.len() - 1] {
                    let mut two = codec::compress(code, &plain[..cut]);
                    two.extend_from_slice(&codec::compress(code, &plain[cut..]));
                    variants.push(("two-members", two));
                }
                let mut t = whole.clone();
                t.extend_from_slice(&[0u8; 9]);
                variants.push(("surplus-zero-bytes", t));
                let mut t = whole.clone();
                t.extend_from_slice(b"garbage!");
                variants.push(("surplus-garbage", t));
                let mut t = whole.clone();
                t.extend_from_slice(&whole);
                variants.push(("member-twice", t));
                if code == 2 {
                    // gzip header with FNAME and FEXTRA
                    let mut g = vec![0x1f, 0x8b, 8, 0x0c, 0, 0, 0, 0, 0, 3, 2, 0, b'x', b'y'];
                    g.extend_from_slice(b"name\0");
                    g.extend_from_slice(&whole[10..]);
                    variants.push(("gzip-fname-fextra", g));
                }
                for (vn, b) in variants {
                    nv += 1;
                    if let Some((k, d)) = check_dir_bytes(&b, c) {
                        rep.violation(format!("{k}/{vn}"), format!("[{} {vn}] {d}", cname(c)), json!({"kind":"framing","variant":vn,"comp":cname(c),"hex":hex(&b[..b.len().min(400)])}));
                    }
                    // the same section as the metadata of an archive and as its root directory
                    use crate::spec::archive::{encode_foreign, Layout, Node};
                    let f = encode_foreign(&[Node::Tile(SEntry::new(0, 0, 2, 1))], b"AA", Some(b"{\"a\":1}"), code, &Layout::default(), SHeader { tile_type: 2, tile_compression: 1, ..SHeader::default() });
                    let mut arch = f.bytes.clone();
                    // replace the root directory section by the variant: rebuild header offsets by hand
                    let h = f.header.clone();
                    let old_root = (h.root_offset as usize, (h.root_offset + h.root_length) as usize);
                    let tail = arch.split_off(old_root.1);
                    arch.truncate(old_root.0);
                    arch.extend_from_slice(&b);
                    let delta = b.len() as i64 - h.root_length as i64;
                    arch.extend_from_slice(&tail);
                    let mut h2 = h.clone();
                    h2.root_length = b.len() as u64;
                    h2.meta_offset = (h.meta_offset as i64 + delta) as u64;
                    h2.leaf_offset = (h.leaf_offset as i64 + delta) as u64;
                    h2.data_offset = (h.data_offset as i64 + delta) as u64;
                    arch[..127].copy_from_slice(&h2.encode());
                    let ids: Vec<u64> = es.iter().map(|e| e.tile_id).collect();
                    if let Some((k, d)) = readers_agree(&arch, (Bound::Unbounded, Bound::Unbounded), &ids[..ids.len().min(4)]) {
                        rep.violation(format!("{k}/{vn}"), format!("[{} root directory as {vn}] {d}", cname(c)), json!({"kind":"framing-archive","variant":vn,"comp":cname(c)}));
                    }
                }
            }
        }
        // a directory that is the last thing in the stream while its declared length runs past the end of the
        // stream (lengths rounded up by a writer, no padding at the end of the file)
        for (code, c) in [(1u8, Compression::None), (2, Compression::GZip), (3, Compression::Brotli), (4, Compression::ZStd)] {
            for extra in [1u64, 16, 1 << 20] {
                let es = &lists[0];
                let root = codec::compress(code, &dir::encode(es));
                let mut h = SHeader { tile_type: 2, tile_compression: 1, internal_compression: code, ..SHeader::default() };
                h.root_offset = 127;
                h.root_length = root.len() as u64 + extra;
                h.meta_offset = 127;
                h.meta_length = 0;
                h.leaf_offset = 127;
                h.leaf_length = 0;
                h.data_offset = 127;
                h.data_length = 0;
                let mut arch = h.encode().to_vec();
                arch.extend_from_slice(&root);
                nv += 1;
                if let Some((k, d)) = readers_agree(&arch, (Bound::Unbounded, Bound::Unbounded), &[]) {
                    rep.violation(format!("{k}/root-length-past-eof"), format!("[{} root directory is the last section, declared {extra} bytes longer than the stream] {d}", cname(c)), json!({"kind":"framing-archive","variant":"root-length-past-eof","comp":cname(c),"extra":extra}));
                }
                let rs = call(|| read_directories(&mut std::io::Cursor::new(&arch), c, (127, h.root_length), 127, ..).map(|m| m.len()));
                let ra = call(|| block_on(read_directories_async(&mut futures::io::Cursor::new(&arch), c, (127, h.root_length), 127, ..)).map(|m| m.len()));
                if rs.kind() != ra.kind() || (rs.is_ok() && rs != ra) {
                    rep.violation("read-directories-outcomes-differ/root-length-past-eof".to_string(), format!("[{}] sync {} vs async {}", cname(c), rs.describe(), ra.describe()), json!({"kind":"framing-archive","variant":"root-length-past-eof","comp":cname(c),"extra":extra}));
                }
            }
        }
        rep.eval(nv * 2);
        rep.nontrivial(nv);
        rep.count("codec_framing_variants", nv);
    }
    // (d) directory writer around the crossing
    let mut jobs = Vec::new();
    for fam in 0..3u32 {
        for c in COMPS {
            if c == Compression::Brotli && !thorough {
                continue;
            }
            let nstar = crossing(fam, c, &window_entries);
            for n in (nstar.saturating_sub(12)..=nstar + 24).step_by(if thorough { 1 } else { 3 }) {
                // initial leaf sizes: the default, a power of two, and two that are not powers of two (round 8: an async twin
                // that rounds the caller's leaf size up to a power of two is invisible with 4096 alone)
                let ls = match n % 4 {
                    0 => LeafSize::Default,
                    1 => LeafSize::Size(4096),
                    2 => LeafSize::Size(1000),
                    _ => LeafSize::Size(7),
                };
                jobs.push((fam, n, c, ls));
            }
        }
    }
    let bad: Vec<_> = jobs.par_iter().map(|(fam, n, c, ls)| ((*fam, *n, *c), check_write_dirs(&window_entries(*fam, *n), *c, *ls))).filter(|x| !x.1.is_empty()).collect();
    rep.eval(jobs.len() as u64 * 2);
    rep.nontrivial(jobs.len() as u64);
    rep.count("write_directories_cases", jobs.len() as u64);
    for ((fam, n, c), b) in bad {
        for (k, d) in b {
            rep.violation(k, format!("[family {fam} n={n} {}] {d}", cname(c)), json!({"kind":"write-dirs","family":fam,"n":n,"comp":cname(c)}));
        }
    }
    // (e) headers
    let mut hb: Vec<Vec<u8>> = Vec::new();
    let base = SHeader { root_length: 9, n_addressed: 3, clustered: 1, internal_compression: 2, tile_compression: 1, tile_type: 1, ..SHeader::default() };
    let mut v = i64::from(i32::MIN);
    while v <= i64::from(i32::MAX) {
        let mut h = base.clone();
        h.min_lon = v as i32;
        h.center_lat = (v as i32).wrapping_mul(31);
        h.max_lat = (v as i32).wrapping_add(1);
        hb.push(h.encode().to_vec());
        v += if thorough { 9_973 } else { 99_991 };
    }
    for off in [7usize, 96, 97, 98, 99] {
        for code in 0..=255u8 {
            let mut b = base.encode().to_vec();
            b[off] = code;
            hb.push(b);
        }
    }
    for len in 0..127 {
        hb.push(base.encode()[..len].to_vec());
    }
    for i in 0..7 {
        let mut b = base.encode().to_vec();
        b[i] ^= 0x20;
        hb.push(b);
    }
    let bad: Vec<_> = hb.par_iter().filter_map(|b| check_header_bytes(b).map(|x| (b.clone(), x))).collect();
    rep.eval(hb.len() as u64);
    rep.nontrivial(hb.len() as u64);
    rep.count("header_images", hb.len() as u64);
    for (b, (k, d)) in bad {
        rep.violation(k, d, json!({"kind":"header","hex":hex(&b)}));
    }
    rep.force_sample(json!({"kind":"logical","archive":super::c01::logical_to_json(&items[777])}));
    rep.force_sample(specs[specs.len() / 3].to_json());
    let _ = comp_from_name("none");
    rep.finish()
}

pub fn replay(case: &Value) -> Vec<String> {
    match case["kind"].as_str() {
        Some("logical") => check_logical(&super::c01::logical_from_json(&case["archive"])).into_iter().map(|(k, d)| format!("{k}: {d}")).collect(),
        Some("foreign") => {
            let s = foreign::Spec::from_json(case);
            let f = foreign::build(&s);
            let ids: Vec<u64> = f.expected.keys().copied().collect();
            ranges(&ids).into_iter().filter_map(|r| readers_agree(&f.bytes, r, &ids)).map(|(k, d)| format!("{k}: {d}")).collect()
        }
        Some("dir") => check_dir_list(&entries_from_json(&case["entries"]), comp_from_name(case["comp"].as_str().unwrap_or("none"))).into_iter().map(|(k, d)| format!("{k}: {d}")).collect(),
        Some("header") => check_header_bytes(&crate::report::unhex(case["hex"].as_str().unwrap_or(""))).map(|(k, d)| format!("{k}: {d}")).into_iter().collect(),
        Some("write-dirs") => check_write_dirs(&window_entries(case["family"].as_u64().unwrap_or(0) as u32, case["n"].as_u64().unwrap_or(0) as usize), comp_from_name(case["comp"].as_str().unwrap_or("none")), LeafSize::Default).into_iter().map(|(k, d)| format!("{k}: {d}")).collect(),
        _ => vec![],
    }
}

//! Engine E3: stateless, deviation-bounded exploration of I/O schedules (CHESS-style iterative
//! bounding). An execution is identified by its deviations from the default answer ("complete
//! transfer / Ready"): a list of (call index, alternative). All executions with at most `bound`
//! deviations are run to completion; with `all_sizes` every transfer size is an alternative.

use crate::env::Kind;
use rayon::prelude::*;
use std::sync::atomic::{AtomicBool, AtomicU64, Ordering};
use std::sync::Mutex;

pub type Dev = Vec<(usize, usize)>;

pub struct Exec<O> {
    pub outcome: O,
    /// number of alternatives at every call
    pub alts: Vec<u8>,
    /// (kind, requested length) of every call, for divergence detection
    pub sig: Vec<(Kind, usize)>,
}

#[derive(Default)]
pub struct SchedStats {
    pub executions: u64,
    pub calls_default: usize,
    pub choice_points_default: usize,
    pub alternatives_default: usize,
    pub capped: bool,
    pub max_deviations: usize,
    pub failures: Vec<(Dev, String)>,
    pub machinery_errors: Vec<String>,
    /// stream calls executed over all executions (the transitions of the explored schedule tree)
    pub calls_executed: u64,
    /// a few of the explored schedules, written out
    pub sample_schedules: Vec<Dev>,
}

pub struct Explorer<'a, O> {
    pub run: &'a (dyn Fn(&Dev) -> Exec<O> + Sync),
    /// compare an execution's outcome with the default execution's; Some(msg) = property violated
    pub judge: &'a (dyn Fn(&O, &O) -> Option<String> + Sync),
    pub bound: usize,
    pub cap: u64,
}

impl<'a, O: Send + Sync> Explorer<'a, O> {
    pub fn explore(&self) -> SchedStats {
        let base = (self.run)(&Vec::new());
        let execs = AtomicU64::new(1);
        let calls = AtomicU64::new(base.sig.len() as u64);
        let samples: Mutex<Vec<Dev>> = Mutex::new(Vec::new());
        let capped = AtomicBool::new(false);
        let failures: Mutex<Vec<(Dev, String)>> = Mutex::new(Vec::new());
        let merr: Mutex<Vec<String>> = Mutex::new(Vec::new());
        let mut st = SchedStats {
            calls_default: base.alts.len(),
            choice_points_default: base.alts.iter().filter(|a| **a > 0).count(),
            alternatives_default: base.alts.iter().map(|a| *a as usize).sum(),
            max_deviations: self.bound,
            ..Default::default()
        };
        if self.bound > 0 {
            // first level in parallel
            let firsts: Vec<(usize, usize)> = base.alts.iter().enumerate().flat_map(|(i, n)| (1..=*n as usize).map(move |a| (i, a))).collect();
            firsts.par_iter().for_each(|(i, a)| {
                self.rec(&base, &base, vec![(*i, *a)], 1, &execs, &capped, &failures, &merr, &calls, &samples);
            });
        }
        st.executions = execs.load(Ordering::Relaxed);
        st.capped = capped.load(Ordering::Relaxed);
        st.failures = failures.into_inner().unwrap();
        st.failures.sort();
        st.machinery_errors = merr.into_inner().unwrap();
        st.calls_executed = calls.load(Ordering::Relaxed);
        st.sample_schedules = samples.into_inner().unwrap();
        st
    }

    #[allow(clippy::too_many_arguments)]
    fn rec(
        &self,
        base: &Exec<O>,
        parent: &Exec<O>,
        dev: Dev,
        depth: usize,
        execs: &AtomicU64,
        capped: &AtomicBool,
        failures: &Mutex<Vec<(Dev, String)>>,
        merr: &Mutex<Vec<String>>,
        calls: &AtomicU64,
        samples: &Mutex<Vec<Dev>>,
    ) {
        let nth = execs.fetch_add(1, Ordering::Relaxed);
        if nth >= self.cap {
            capped.store(true, Ordering::Relaxed);
            return;
        }
        let x = (self.run)(&dev);
        calls.fetch_add(x.sig.len() as u64, Ordering::Relaxed);
        if depth >= 2 && nth % 4099 == 7 {
            let mut sm = samples.lock().unwrap();
            if sm.len() < 3 {
                sm.push(dev.clone());
            }
        }
        let last = dev.last().unwrap().0;
        // the prefix before the newest deviation must replay identically
        if x.sig.len() < last || parent.sig.len() < last || x.sig[..last] != parent.sig[..last] {
            merr.lock().unwrap().push(format!("replay diverged before call {last} under {dev:?}"));
            return;
        }
        if let Some(msg) = (self.judge)(&base.outcome, &x.outcome) {
            // replay the same schedule once more before believing it
            let y = (self.run)(&dev);
            if y.sig != x.sig || (self.judge)(&x.outcome, &y.outcome).is_some() && (self.judge)(&base.outcome, &y.outcome).is_none() {
                merr.lock().unwrap().push(format!("schedule {dev:?} is not reproducible"));
            } else {
                let mut f = failures.lock().unwrap();
                if f.len() < 200 {
                    f.push((dev.clone(), msg));
                }
            }
        }
        if depth < self.bound {
            for i in (last + 1)..x.alts.len() {
                for a in 1..=x.alts[i] as usize {
                    if capped.load(Ordering::Relaxed) {
                        return;
                    }
                    let mut d2 = dev.clone();
                    d2.push((i, a));
                    self.rec(base, &x, d2, depth + 1, execs, capped, failures, merr, calls, samples);
                }
            }
        }
    }
}

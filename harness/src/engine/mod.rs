pub mod isolate;
pub mod sched;

//! Isolation runner: worker sub-processes for cases that may abort the process (allocation
//! failure, stack overflow), hang, or need a fresh process image (hash seeds).
//!
//! Protocol (worker stdout, unbuffered): `S <case>` before a case, `c <call>` before each library
//! call, `P <case> <call> <message>` for a caught panic, `K <case>` for a case skipped by the
//! budget rule, `E <case>` after a case. A worker that dies is attributed to the case and call in
//! flight and restarted behind it.

use rayon::prelude::*;
use std::io::{BufRead, BufReader};
use std::os::unix::process::ExitStatusExt;
use std::process::{Command, Stdio};

pub fn worker_main(args: &[String]) -> i32 {
    match args.first().map(|s| s.as_str()) {
        Some("c16-digests") => crate::props::c16::worker_digests(),
        Some("c08") => {
            let a: Vec<String> = args[1..].to_vec();
            // fixed 8 MiB stack, like a default main thread
            let h = std::thread::Builder::new().stack_size(8 << 20).spawn(move || crate::props::c08::worker(&a)).unwrap();
            h.join().unwrap_or(2)
        }
        _ => {
            eprintln!("unknown worker {:?}", args);
            2
        }
    }
}

/// raw, unbuffered line to stdout (must survive an abort right afterwards)
pub fn emit(line: &str) {
    let mut b = line.as_bytes().to_vec();
    b.push(b'\n');
    unsafe {
        let mut off = 0;
        while off < b.len() {
            let n = libc::write(1, b[off..].as_ptr() as *const libc::c_void, b.len() - off);
            if n <= 0 {
                break;
            }
            off += n as usize;
        }
    }
}

pub fn set_limits(as_bytes: u64) {
    unsafe {
        let lim = libc::rlimit { rlim_cur: as_bytes, rlim_max: as_bytes };
        libc::setrlimit(libc::RLIMIT_AS, &lim);
        let core = libc::rlimit { rlim_cur: 0, rlim_max: 0 };
        libc::setrlimit(libc::RLIMIT_CORE, &core);
    }
}
pub fn arm_alarm(seconds: u32) {
    unsafe {
        libc::alarm(seconds);
    }
}

#[derive(Debug, Clone)]
pub enum Event {
    Panic { case: usize, call: String, msg: String },
    Died { case: usize, call: String, how: String },
    Skipped { case: usize },
}

/// Run cases [0,total) in worker processes `exe worker <args..> <from> <to>`; returns all non-ok events.
pub fn run_isolated(args: &[String], total: usize, chunk: usize, machinery_errors: &std::sync::Mutex<Vec<String>>) -> Vec<Event> {
    let exe = std::env::current_exe().unwrap();
    let chunks: Vec<(usize, usize)> = (0..total).step_by(chunk.max(1)).map(|a| (a, (a + chunk).min(total))).collect();
    let mut all: Vec<Event> = chunks
        .par_iter()
        .flat_map_iter(|(a, b)| {
            let mut events = Vec::new();
            let mut from = *a;
            let mut respawns = 0;
            while from < *b {
                let mut child = match Command::new(&exe).arg("worker").args(args).arg(from.to_string()).arg(b.to_string()).stdout(Stdio::piped()).stderr(Stdio::null()).spawn() {
                    Ok(c) => c,
                    Err(e) => {
                        machinery_errors.lock().unwrap().push(format!("cannot spawn worker: {e}"));
                        break;
                    }
                };
                let out = child.stdout.take().unwrap();
                let mut cur_case: Option<usize> = None;
                let mut cur_call = String::new();
                let mut last_done: Option<usize> = None;
                for line in BufReader::new(out).lines() {
                    let Ok(line) = line else { break };
                    let mut it = line.splitn(2, ' ');
                    match (it.next(), it.next()) {
                        (Some("S"), Some(r)) => {
                            cur_case = r.trim().parse().ok();
                            cur_call.clear();
                        }
                        (Some("c"), Some(r)) => cur_call = r.to_string(),
                        (Some("E"), Some(r)) => {
                            last_done = r.trim().parse().ok();
                            cur_case = None;
                        }
                        (Some("K"), Some(r)) => {
                            if let Ok(c) = r.trim().parse() {
                                events.push(Event::Skipped { case: c });
                            }
                        }
                        (Some("P"), Some(r)) => {
                            let mut p = r.splitn(3, ' ');
                            let case = p.next().and_then(|x| x.parse().ok()).unwrap_or(0);
                            let call = p.next().unwrap_or("").to_string();
                            let msg = p.next().unwrap_or("").to_string();
                            events.push(Event::Panic { case, call, msg });
                        }
                        _ => {}
                    }
                }
                let status = child.wait();
                match status {
                    Ok(st) if st.success() => {
                        from = *b;
                    }
                    Ok(st) => {
                        let how = match st.signal() {
                            Some(libc::SIGALRM) => "timeout (SIGALRM, per-case wall cap)".to_string(),
                            Some(libc::SIGSEGV) => "SIGSEGV (stack overflow or invalid access)".to_string(),
                            Some(libc::SIGABRT) => "SIGABRT (abort: allocation failure / stack overflow handler)".to_string(),
                            Some(libc::SIGKILL) => "SIGKILL".to_string(),
                            Some(s) => format!("signal {s}"),
                            None => format!("exit code {:?}", st.code()),
                        };
                        match cur_case {
                            Some(c) => {
                                events.push(Event::Died { case: c, call: cur_call.clone(), how });
                                from = c + 1;
                            }
                            None => {
                                // died between cases: should not happen
                                machinery_errors.lock().unwrap().push(format!("worker for [{from},{b}) ended with {how} outside any case (last finished {last_done:?})"));
                                from = last_done.map(|d| d + 1).unwrap_or(*b).max(from + 1);
                            }
                        }
                        respawns += 1;
                        if respawns > 5000 {
                            machinery_errors.lock().unwrap().push(format!("too many worker deaths in chunk [{a},{b})"));
                            break;
                        }
                    }
                    Err(e) => {
                        machinery_errors.lock().unwrap().push(format!("wait failed: {e}"));
                        break;
                    }
                }
            }
            events
        })
        .collect();
    all.sort_by_key(|e| match e {
        Event::Panic { case, .. } | Event::Died { case, .. } | Event::Skipped { case } => *case,
    });
    all
}

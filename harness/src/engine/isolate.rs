//! Isolation runner (placeholder until C08 lands)
pub fn worker_main(_args: &[String]) -> i32 { 2 }

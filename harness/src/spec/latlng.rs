//! Exact "nearest multiple of 1e-7" oracle: integer arithmetic on the f64's mantissa/exponent.

/// For a finite f64 `x`, returns (lo, hi): the set of integers k that are nearest to x * 10^7
/// in exact real arithmetic. lo == hi except on an exact tie, where hi == lo + 1.
/// None if |x * 1e7| does not fit comfortably in i64.
pub fn nearest_e7(x: f64) -> Option<(i64, i64)> {
    if !x.is_finite() {
        return None;
    }
    if x == 0.0 {
        return Some((0, 0));
    }
    let bits = x.to_bits();
    let neg = bits >> 63 == 1;
    let exp = ((bits >> 52) & 0x7ff) as i32;
    let frac = bits & ((1u64 << 52) - 1);
    let (m, e) = if exp == 0 {
        (frac, -1074)
    } else {
        (frac | (1u64 << 52), exp - 1075)
    };
    // |x| = m * 2^e ; product = m * 10^7 < 2^77
    let prod: u128 = u128::from(m) * 10_000_000u128;
    let (q, cmp): (u128, std::cmp::Ordering) = if e >= 0 {
        if e > 40 {
            return None;
        }
        (prod << e, std::cmp::Ordering::Less)
    } else {
        let s = (-e) as u32;
        if s >= 127 {
            // prod < 2^77 <= half = 2^(s-1)
            (0, std::cmp::Ordering::Less)
        } else {
            let q = prod >> s;
            let r = prod & ((1u128 << s) - 1);
            let half = 1u128 << (s - 1);
            (q, r.cmp(&half))
        }
    };
    if q > (1u128 << 62) {
        return None;
    }
    let q = q as i64;
    let (lo, hi) = match cmp {
        std::cmp::Ordering::Less => (q, q),
        std::cmp::Ordering::Greater => (q + 1, q + 1),
        std::cmp::Ordering::Equal => (q, q + 1),
    };
    if neg {
        Some((-hi, -lo))
    } else {
        Some((lo, hi))
    }
}

/// what the spec reader yields for stored value k
pub fn stored_to_deg(k: i32) -> f64 {
    f64::from(k) / 10_000_000.0
}

#[cfg(test)]
mod t {
    use super::*;
    #[test]
    fn basics() {
        assert_eq!(nearest_e7(0.0), Some((0, 0)));
        assert_eq!(nearest_e7(180.0), Some((1_800_000_000, 1_800_000_000)));
        assert_eq!(nearest_e7(-85.0), Some((-850_000_000, -850_000_000)));
        assert_eq!(nearest_e7(2.1e-6), Some((21, 21)));
        assert_eq!(nearest_e7(0.5 / 128.0 ), Some((39062, 39063)));
        for k in [-1_800_000_000i32, -3, -1, 0, 1, 2, 21, 123_456_789, 1_800_000_000, i32::MAX, i32::MIN] {
            assert_eq!(nearest_e7(stored_to_deg(k)), Some((i64::from(k), i64::from(k))), "{k}");
        }
    }
}

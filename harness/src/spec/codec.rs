//! Independent access to the codecs: the upstream crates are called directly, never through pmtiles2::util.
use std::io::{Read, Write};

/// code: 1 none, 2 gzip, 3 brotli, 4 zstd
pub fn compress(code: u8, data: &[u8]) -> Vec<u8> {
    match code {
        1 => data.to_vec(),
        2 => {
            let mut e = flate2::write::GzEncoder::new(Vec::new(), flate2::Compression::new(6));
            e.write_all(data).unwrap();
            e.finish().unwrap()
        }
        3 => {
            let mut out = Vec::new();
            {
                let mut w = brotli::CompressorWriter::new(&mut out, 4096, 5, 22);
                w.write_all(data).unwrap();
                w.flush().unwrap();
            }
            out
        }
        4 => {
            let mut e = zstd::Encoder::new(Vec::new(), 3).unwrap();
            e.write_all(data).unwrap();
            e.finish().unwrap()
        }
        _ => panic!("HARNESS: compress code {code}"),
    }
}

/// Strict decode: the whole input must be exactly one well-terminated stream.
pub fn decompress(code: u8, data: &[u8]) -> Result<Vec<u8>, String> {
    match code {
        1 => Ok(data.to_vec()),
        2 => {
            let mut d = flate2::read::GzDecoder::new(data);
            let mut out = Vec::new();
            d.read_to_end(&mut out).map_err(|e| format!("gzip: {e}"))?;
            let rest = d.into_inner();
            if !rest.is_empty() {
                return Err(format!("gzip: {} trailing bytes", rest.len()));
            }
            Ok(out)
        }
        3 => {
            let mut d = brotli::Decompressor::new(data, 4096);
            let mut out = Vec::new();
            d.read_to_end(&mut out).map_err(|e| format!("brotli: {e}"))?;
            Ok(out)
        }
        4 => {
            let mut out = Vec::new();
            let mut d = zstd::stream::read::Decoder::new(data).map_err(|e| format!("zstd: {e}"))?;
            d.read_to_end(&mut out).map_err(|e| format!("zstd: {e}"))?;
            Ok(out)
        }
        _ => Err(format!("compression code {code}")),
    }
}

/// Lenient decode: whatever the decoder yields before it fails or the input ends (used only to
/// measure what a possibly damaged directory declares, never as an oracle).
pub fn decompress_lenient(code: u8, data: &[u8]) -> Vec<u8> {
    fn drain(mut r: impl Read) -> Vec<u8> {
        let mut out = Vec::new();
        let mut buf = [0u8; 4096];
        loop {
            match r.read(&mut buf) {
                Ok(0) | Err(_) => break,
                Ok(n) => out.extend_from_slice(&buf[..n]),
            }
            if out.len() > (64 << 20) {
                break;
            }
        }
        out
    }
    match code {
        1 => data.to_vec(),
        2 => drain(flate2::read::GzDecoder::new(data)),
        3 => drain(brotli::Decompressor::new(data, 4096)),
        4 => match zstd::stream::read::Decoder::new(data) {
            Ok(d) => drain(d),
            Err(_) => Vec::new(),
        },
        _ => Vec::new(),
    }
}

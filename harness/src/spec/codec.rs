//! Independent access to the codecs: the upstream crates are called directly, never through pmtiles2::util.
use std::io::{Read, Write};

thread_local! {
    /// encoder parameter set used by `compress` on this thread (0 = default)
    static VARIANT: std::cell::Cell<u8> = const { std::cell::Cell::new(0) };
}

/// run `f` with `compress` using the given encoder parameter set: 1 = another writer's "maximum" settings (gzip level 9
/// with file name, comment, extra field and mtime in the member header; brotli quality 9 with a 16 MiB window; zstd
/// with a 128 MiB window (2^27, the largest a decoder accepts by default) and a content checksum), 2 = minimum settings (gzip stored blocks, brotli quality 0, zstd level 1 without
/// content size in the frame header)
pub fn with_variant<T>(v: u8, f: impl FnOnce() -> T) -> T {
    let old = VARIANT.with(|c| c.replace(v));
    let r = f();
    VARIANT.with(|c| c.set(old));
    r
}

/// code: 1 none, 2 gzip, 3 brotli, 4 zstd
pub fn compress(code: u8, data: &[u8]) -> Vec<u8> {
    match (code, VARIANT.with(|c| c.get())) {
        (2, 1) => {
            let mut e = flate2::GzBuilder::new().filename("tiles.json").comment("written by another tool").extra(vec![1u8, 2, 3, 4, 5]).mtime(1_700_000_000).write(Vec::new(), flate2::Compression::new(9));
            e.write_all(data).unwrap();
            return e.finish().unwrap();
        }
        (2, 2) => {
            let mut e = flate2::write::GzEncoder::new(Vec::new(), flate2::Compression::new(0));
            e.write_all(data).unwrap();
            return e.finish().unwrap();
        }
        (3, v @ (1 | 2)) => {
            let mut out = Vec::new();
            {
                let mut w = brotli::CompressorWriter::new(&mut out, 4096, if v == 1 { 9 } else { 0 }, if v == 1 { 24 } else { 10 });
                w.write_all(data).unwrap();
                w.flush().unwrap();
            }
            return out;
        }
        (4, 1) => {
            // level 1 keeps the encoder's tables small; the frame header still announces the 2^27 window
            let mut e = zstd::Encoder::new(Vec::new(), 1).unwrap();
            e.window_log(27).unwrap();
            e.include_checksum(true).unwrap();
            e.write_all(data).unwrap();
            return e.finish().unwrap();
        }
        (4, 2) => {
            let mut e = zstd::Encoder::new(Vec::new(), 1).unwrap();
            e.include_contentsize(false).unwrap();
            e.write_all(data).unwrap();
            return e.finish().unwrap();
        }
        _ => {}
    }
    match code {
        1 => data.to_vec(),
        2 => {
            let mut e = flate2::write::GzEncoder::new(Vec::new(), flate2::Compression::new(6));
            e.write_all(data).unwrap();
            e.finish().unwrap()
        }
        3 => {
            let mut out = Vec::new();
            {
                let mut w = brotli::CompressorWriter::new(&mut out, 4096, 5, 22);
                w.write_all(data).unwrap();
                w.flush().unwrap();
            }
            out
        }
        4 => {
            let mut e = zstd::Encoder::new(Vec::new(), 3).unwrap();
            e.write_all(data).unwrap();
            e.finish().unwrap()
        }
        _ => panic!("HARNESS: compress code {code}"),
    }
}

/// Strict decode: the whole input must be exactly one well-terminated stream.
pub fn decompress(code: u8, data: &[u8]) -> Result<Vec<u8>, String> {
    match code {
        1 => Ok(data.to_vec()),
        2 => {
            let mut d = flate2::read::GzDecoder::new(data);
            let mut out = Vec::new();
            d.read_to_end(&mut out).map_err(|e| format!("gzip: {e}"))?;
            let rest = d.into_inner();
            if !rest.is_empty() {
                return Err(format!("gzip: {} trailing bytes", rest.len()));
            }
            Ok(out)
        }
        3 => {
            let mut d = brotli::Decompressor::new(data, 4096);
            let mut out = Vec::new();
            d.read_to_end(&mut out).map_err(|e| format!("brotli: {e}"))?;
            Ok(out)
        }
        4 => {
            let mut out = Vec::new();
            let mut d = zstd::stream::read::Decoder::new(data).map_err(|e| format!("zstd: {e}"))?;
            d.read_to_end(&mut out).map_err(|e| format!("zstd: {e}"))?;
            Ok(out)
        }
        _ => Err(format!("compression code {code}")),
    }
}

/// Lenient decode: whatever the decoder yields before it fails or the input ends (used only to
/// measure what a possibly damaged directory declares, never as an oracle).
pub fn decompress_lenient(code: u8, data: &[u8]) -> Vec<u8> {
    fn drain(mut r: impl Read) -> Vec<u8> {
        let mut out = Vec::new();
        let mut buf = [0u8; 4096];
        loop {
            match r.read(&mut buf) {
                Ok(0) | Err(_) => break,
                Ok(n) => out.extend_from_slice(&buf[..n]),
            }
            if out.len() > (64 << 20) {
                break;
            }
        }
        out
    }
    match code {
        1 => data.to_vec(),
        2 => drain(flate2::read::GzDecoder::new(data)),
        3 => drain(brotli::Decompressor::new(data, 4096)),
        4 => match zstd::stream::read::Decoder::new(data) {
            Ok(d) => drain(d),
            Err(_) => Vec::new(),
        },
        _ => Vec::new(),
    }
}

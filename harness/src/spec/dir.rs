//! PMTiles v3 directory (uncompressed form): count, delta ids, run lengths, lengths, offsets.
use super::varint::{self, VarErr};

#[derive(Debug, Clone, Copy, PartialEq, Eq, Hash, PartialOrd, Ord)]
pub struct SEntry {
    pub tile_id: u64,
    pub offset: u64,
    pub length: u32,
    pub run_length: u32,
}

impl SEntry {
    pub fn new(tile_id: u64, offset: u64, length: u32, run_length: u32) -> Self {
        Self { tile_id, offset, length, run_length }
    }
}

/// Spec encoder. Offsets: 0 means "contiguous with previous entry" (only for index > 0), else offset+1.
pub fn encode(entries: &[SEntry]) -> Vec<u8> {
    let mut o = Vec::new();
    varint::put(&mut o, entries.len() as u64);
    let mut last = 0u64;
    for e in entries {
        varint::put(&mut o, e.tile_id.wrapping_sub(last));
        last = e.tile_id;
    }
    for e in entries {
        varint::put(&mut o, u64::from(e.run_length));
    }
    for e in entries {
        varint::put(&mut o, u64::from(e.length));
    }
    for (i, e) in entries.iter().enumerate() {
        if i > 0 && e.offset == entries[i - 1].offset.wrapping_add(u64::from(entries[i - 1].length)) {
            varint::put(&mut o, 0);
        } else {
            varint::put(&mut o, e.offset.wrapping_add(1));
        }
    }
    o
}

#[derive(Debug, Clone, PartialEq, Eq)]
pub enum DirErr {
    Var(VarErr),
    CountTooLarge,
    IdOverflow,
    U32Overflow,
    ZeroLength,
    ZeroFirstOffset,
    OffsetOverflow,
    Trailing,
}
impl From<VarErr> for DirErr {
    fn from(e: VarErr) -> Self {
        DirErr::Var(e)
    }
}

/// Checked spec decoder (all arithmetic checked; every hostile value is an `Err`).
pub fn decode(b: &[u8]) -> Result<Vec<SEntry>, DirErr> {
    let mut pos = 0usize;
    let n = varint::get(b, &mut pos)?;
    // every entry needs at least 4 bytes
    if n > (b.len() as u64) {
        return Err(DirErr::CountTooLarge);
    }
    let n = n as usize;
    let mut es = vec![SEntry::new(0, 0, 0, 0); n];
    let mut last = 0u64;
    for e in es.iter_mut() {
        let d = varint::get(b, &mut pos)?;
        last = last.checked_add(d).ok_or(DirErr::IdOverflow)?;
        e.tile_id = last;
    }
    for e in es.iter_mut() {
        let v = varint::get(b, &mut pos)?;
        e.run_length = u32::try_from(v).map_err(|_| DirErr::U32Overflow)?;
    }
    for e in es.iter_mut() {
        let v = varint::get(b, &mut pos)?;
        e.length = u32::try_from(v).map_err(|_| DirErr::U32Overflow)?;
        if e.length == 0 {
            return Err(DirErr::ZeroLength);
        }
    }
    for i in 0..n {
        let v = varint::get(b, &mut pos)?;
        es[i].offset = if v == 0 {
            if i == 0 {
                return Err(DirErr::ZeroFirstOffset);
            }
            es[i - 1]
                .offset
                .checked_add(u64::from(es[i - 1].length))
                .ok_or(DirErr::OffsetOverflow)?
        } else {
            v - 1
        };
    }
    if pos != b.len() {
        return Err(DirErr::Trailing);
    }
    Ok(es)
}

/// Validity in the sense of the spec / property C05: strictly ascending, runs non-overlapping, lengths >= 1
pub fn is_valid(entries: &[SEntry]) -> bool {
    let mut next_free: u128 = 0;
    for (i, e) in entries.iter().enumerate() {
        if e.length == 0 {
            return false;
        }
        if i > 0 && u128::from(e.tile_id) < next_free {
            return false;
        }
        if i > 0 && e.tile_id <= entries[i - 1].tile_id {
            return false;
        }
        next_free = u128::from(e.tile_id) + u128::from(e.run_length.max(1));
        if next_free > u128::from(u64::MAX) {
            return false;
        }
    }
    true
}

//! LEB128 unsigned varints as used by PMTiles v3 directories.

pub fn put(out: &mut Vec<u8>, mut v: u64) {
    loop {
        let b = (v & 0x7f) as u8;
        v >>= 7;
        if v == 0 {
            out.push(b);
            return;
        }
        out.push(b | 0x80);
    }
}

pub fn enc(v: u64) -> Vec<u8> {
    let mut o = Vec::new();
    put(&mut o, v);
    o
}

#[derive(Debug, Clone, PartialEq, Eq)]
pub enum VarErr {
    Eof,
    Overflow,
}

/// Decodes one varint from `b[*pos..]`. More than 10 bytes or a value above u64::MAX is an error.
pub fn get(b: &[u8], pos: &mut usize) -> Result<u64, VarErr> {
    let mut v: u64 = 0;
    let mut shift = 0u32;
    loop {
        let Some(&byte) = b.get(*pos) else {
            return Err(VarErr::Eof);
        };
        *pos += 1;
        let low = u64::from(byte & 0x7f);
        if shift == 63 && low > 1 {
            return Err(VarErr::Overflow);
        }
        if shift > 63 {
            return Err(VarErr::Overflow);
        }
        v |= low << shift;
        if byte & 0x80 == 0 {
            return Ok(v);
        }
        shift += 7;
    }
}

//! An unrelated gzip reader: RFC 1952 framing + RFC 1951 inflate (puff-style, canonical Huffman
//! decoding bit by bit) + CRC-32 + ISIZE verification. Shares no code with flate2/miniz_oxide.

struct Bits<'a> {
    b: &'a [u8],
    pos: usize,
    bitbuf: u32,
    bitcnt: u32,
}

impl<'a> Bits<'a> {
    fn bits(&mut self, need: u32) -> Result<u32, String> {
        let mut val = self.bitbuf;
        while self.bitcnt < need {
            let Some(&byte) = self.b.get(self.pos) else {
                return Err("inflate: out of input".into());
            };
            self.pos += 1;
            val |= u32::from(byte) << self.bitcnt;
            self.bitcnt += 8;
        }
        self.bitbuf = if need == 32 { 0 } else { val >> need };
        self.bitcnt -= need;
        Ok(if need == 32 { val } else { val & ((1u32 << need) - 1) })
    }
}

struct Huff {
    count: [u16; 16],
    symbol: Vec<u16>,
}

fn construct(lengths: &[u16]) -> (Huff, i32) {
    let mut count = [0u16; 16];
    for &l in lengths {
        count[l as usize] += 1;
    }
    let mut left: i32 = 1;
    if count[0] as usize == lengths.len() {
        return (Huff { count, symbol: vec![0; lengths.len()] }, 0);
    }
    for len in 1..16 {
        left <<= 1;
        left -= i32::from(count[len]);
        if left < 0 {
            return (Huff { count, symbol: vec![0; lengths.len()] }, left);
        }
    }
    let mut offs = [0u16; 16];
    for len in 1..15 {
        offs[len + 1] = offs[len] + count[len];
    }
    let mut symbol = vec![0u16; lengths.len()];
    for (sym, &l) in lengths.iter().enumerate() {
        if l != 0 {
            symbol[offs[l as usize] as usize] = sym as u16;
            offs[l as usize] += 1;
        }
    }
    (Huff { count, symbol }, left)
}

fn decode(s: &mut Bits, h: &Huff) -> Result<u16, String> {
    let mut code: i32 = 0;
    let mut first: i32 = 0;
    let mut index: i32 = 0;
    for len in 1..16 {
        code |= s.bits(1)? as i32;
        let count = i32::from(h.count[len]);
        if code - count < first {
            return Ok(h.symbol[(index + (code - first)) as usize]);
        }
        index += count;
        first += count;
        first <<= 1;
        code <<= 1;
    }
    Err("inflate: ran out of codes".into())
}

const LBASE: [u16; 29] = [3, 4, 5, 6, 7, 8, 9, 10, 11, 13, 15, 17, 19, 23, 27, 31, 35, 43, 51, 59, 67, 83, 99, 115, 131, 163, 195, 227, 258];
const LEXT: [u16; 29] = [0, 0, 0, 0, 0, 0, 0, 0, 1, 1, 1, 1, 2, 2, 2, 2, 3, 3, 3, 3, 4, 4, 4, 4, 5, 5, 5, 5, 0];
const DBASE: [u16; 30] = [1, 2, 3, 4, 5, 7, 9, 13, 17, 25, 33, 49, 65, 97, 129, 193, 257, 385, 513, 769, 1025, 1537, 2049, 3073, 4097, 6145, 8193, 12289, 16385, 24577];
const DEXT: [u16; 30] = [0, 0, 0, 0, 1, 1, 2, 2, 3, 3, 4, 4, 5, 5, 6, 6, 7, 7, 8, 8, 9, 9, 10, 10, 11, 11, 12, 12, 13, 13];

fn codes(s: &mut Bits, out: &mut Vec<u8>, lencode: &Huff, distcode: &Huff) -> Result<(), String> {
    loop {
        let symbol = decode(s, lencode)?;
        if symbol < 256 {
            out.push(symbol as u8);
        } else if symbol == 256 {
            return Ok(());
        } else {
            let symbol = (symbol - 257) as usize;
            if symbol >= 29 {
                return Err("inflate: invalid length symbol".into());
            }
            let len = usize::from(LBASE[symbol]) + s.bits(u32::from(LEXT[symbol]))? as usize;
            let ds = decode(s, distcode)? as usize;
            if ds >= 30 {
                return Err("inflate: invalid distance symbol".into());
            }
            let dist = usize::from(DBASE[ds]) + s.bits(u32::from(DEXT[ds]))? as usize;
            if dist > out.len() {
                return Err("inflate: distance too far back".into());
            }
            for _ in 0..len {
                let b = out[out.len() - dist];
                out.push(b);
            }
        }
    }
}

fn fixed_tables() -> (Huff, Huff) {
    let mut l = [0u16; 288];
    for (i, v) in l.iter_mut().enumerate() {
        *v = if i < 144 { 8 } else if i < 256 { 9 } else if i < 280 { 7 } else { 8 };
    }
    let d = [5u16; 30];
    (construct(&l).0, construct(&d).0)
}

fn dynamic(s: &mut Bits, out: &mut Vec<u8>) -> Result<(), String> {
    const ORDER: [usize; 19] = [16, 17, 18, 0, 8, 7, 9, 6, 10, 5, 11, 4, 12, 3, 13, 2, 14, 1, 15];
    let nlen = s.bits(5)? as usize + 257;
    let ndist = s.bits(5)? as usize + 1;
    let ncode = s.bits(4)? as usize + 4;
    if nlen > 286 || ndist > 30 {
        return Err("inflate: bad counts".into());
    }
    let mut lengths = [0u16; 320];
    for &o in ORDER.iter().take(ncode) {
        lengths[o] = s.bits(3)? as u16;
    }
    let (lencode, err) = construct(&lengths[..19]);
    if err != 0 {
        return Err("inflate: incomplete code-length code".into());
    }
    let mut index = 0usize;
    while index < nlen + ndist {
        let symbol = decode(s, &lencode)?;
        if symbol < 16 {
            lengths[index] = symbol;
            index += 1;
        } else {
            let (len, rep) = match symbol {
                16 => {
                    if index == 0 {
                        return Err("inflate: repeat with no previous length".into());
                    }
                    (lengths[index - 1], 3 + s.bits(2)? as usize)
                }
                17 => (0, 3 + s.bits(3)? as usize),
                _ => (0, 11 + s.bits(7)? as usize),
            };
            if index + rep > nlen + ndist {
                return Err("inflate: too many lengths".into());
            }
            for _ in 0..rep {
                lengths[index] = len;
                index += 1;
            }
        }
    }
    if lengths[256] == 0 {
        return Err("inflate: no end-of-block code".into());
    }
    let (lc, err) = construct(&lengths[..nlen]);
    if err != 0 && (err < 0 || nlen != usize::from(lc.count[0]) + usize::from(lc.count[1])) {
        return Err("inflate: bad literal/length code".into());
    }
    let (dc, err) = construct(&lengths[nlen..nlen + ndist]);
    if err != 0 && (err < 0 || ndist != usize::from(dc.count[0]) + usize::from(dc.count[1])) {
        return Err("inflate: bad distance code".into());
    }
    codes(s, out, &lc, &dc)
}

/// Inflate a raw deflate stream; returns (output, bytes consumed).
pub fn inflate(b: &[u8]) -> Result<(Vec<u8>, usize), String> {
    let mut s = Bits { b, pos: 0, bitbuf: 0, bitcnt: 0 };
    let mut out = Vec::new();
    loop {
        let last = s.bits(1)?;
        let typ = s.bits(2)?;
        match typ {
            0 => {
                s.bitbuf = 0;
                s.bitcnt = 0;
                if s.pos + 4 > b.len() {
                    return Err("inflate: stored header truncated".into());
                }
                let len = usize::from(b[s.pos]) | (usize::from(b[s.pos + 1]) << 8);
                let nlen = usize::from(b[s.pos + 2]) | (usize::from(b[s.pos + 3]) << 8);
                if len != (!nlen & 0xffff) {
                    return Err("inflate: stored length mismatch".into());
                }
                s.pos += 4;
                if s.pos + len > b.len() {
                    return Err("inflate: stored block truncated".into());
                }
                out.extend_from_slice(&b[s.pos..s.pos + len]);
                s.pos += len;
            }
            1 => {
                let (l, d) = fixed_tables();
                codes(&mut s, &mut out, &l, &d)?;
            }
            2 => dynamic(&mut s, &mut out)?,
            _ => return Err("inflate: invalid block type".into()),
        }
        if last == 1 {
            break;
        }
    }
    Ok((out, s.pos))
}

pub fn crc32(data: &[u8]) -> u32 {
    let mut crc = 0xFFFF_FFFFu32;
    for &b in data {
        crc ^= u32::from(b);
        for _ in 0..8 {
            crc = if crc & 1 == 1 { (crc >> 1) ^ 0xEDB8_8320 } else { crc >> 1 };
        }
    }
    !crc
}

/// Parses exactly one gzip member covering the whole input; verifies CRC-32 and ISIZE.
pub fn gunzip(b: &[u8]) -> Result<Vec<u8>, String> {
    if b.len() < 18 {
        return Err(format!("gzip: only {} bytes", b.len()));
    }
    if b[0] != 0x1f || b[1] != 0x8b {
        return Err("gzip: bad magic".into());
    }
    if b[2] != 8 {
        return Err("gzip: method is not deflate".into());
    }
    let flg = b[3];
    if flg & 0xe0 != 0 {
        return Err("gzip: reserved flag bits set".into());
    }
    let mut pos = 10usize;
    if flg & 4 != 0 {
        if pos + 2 > b.len() {
            return Err("gzip: FEXTRA truncated".into());
        }
        let xlen = usize::from(b[pos]) | (usize::from(b[pos + 1]) << 8);
        pos += 2 + xlen;
    }
    for bit in [8u8, 16u8] {
        if flg & bit != 0 {
            while *b.get(pos).ok_or("gzip: string truncated")? != 0 {
                pos += 1;
            }
            pos += 1;
        }
    }
    if flg & 2 != 0 {
        pos += 2;
    }
    if pos > b.len() {
        return Err("gzip: header truncated".into());
    }
    let (out, used) = inflate(&b[pos..])?;
    let t = pos + used;
    if t + 8 != b.len() {
        return Err(format!("gzip: trailer expected at {t}, input has {} bytes", b.len()));
    }
    let crc = u32::from_le_bytes(b[t..t + 4].try_into().unwrap());
    let isize = u32::from_le_bytes(b[t + 4..t + 8].try_into().unwrap());
    if crc != crc32(&out) {
        return Err("gzip: CRC-32 mismatch".into());
    }
    if isize != (out.len() as u64 & 0xffff_ffff) as u32 {
        return Err("gzip: ISIZE mismatch".into());
    }
    Ok(out)
}

#[cfg(test)]
mod t {
    use super::*;
    #[test]
    fn against_flate2() {
        for n in [0usize, 1, 5, 100, 5000, 70000] {
            let data: Vec<u8> = (0..n).map(|i| ((i * 7) % 251) as u8 ^ ((i / 300) as u8)).collect();
            for lvl in [0u32, 1, 6, 9] {
                let z = {
                    use std::io::Write;
                    let mut e = flate2::write::GzEncoder::new(Vec::new(), flate2::Compression::new(lvl));
                    e.write_all(&data).unwrap();
                    e.finish().unwrap()
                };
                assert_eq!(gunzip(&z).unwrap(), data, "n={n} lvl={lvl}");
            }
        }
    }
}

//! 127-byte PMTiles v3 header, hand-written little-endian codec.

#[derive(Debug, Clone, PartialEq, Eq)]
pub struct SHeader {
    pub root_offset: u64,
    pub root_length: u64,
    pub meta_offset: u64,
    pub meta_length: u64,
    pub leaf_offset: u64,
    pub leaf_length: u64,
    pub data_offset: u64,
    pub data_length: u64,
    pub n_addressed: u64,
    pub n_entries: u64,
    pub n_contents: u64,
    pub clustered: u8,
    pub internal_compression: u8,
    pub tile_compression: u8,
    pub tile_type: u8,
    pub min_zoom: u8,
    pub max_zoom: u8,
    pub min_lon: i32,
    pub min_lat: i32,
    pub max_lon: i32,
    pub max_lat: i32,
    pub center_zoom: u8,
    pub center_lon: i32,
    pub center_lat: i32,
}

impl Default for SHeader {
    fn default() -> Self {
        Self {
            root_offset: 127,
            root_length: 0,
            meta_offset: 127,
            meta_length: 0,
            leaf_offset: 127,
            leaf_length: 0,
            data_offset: 127,
            data_length: 0,
            n_addressed: 0,
            n_entries: 0,
            n_contents: 0,
            clustered: 0,
            internal_compression: 1,
            tile_compression: 1,
            tile_type: 1,
            min_zoom: 0,
            max_zoom: 0,
            min_lon: 0,
            min_lat: 0,
            max_lon: 0,
            max_lat: 0,
            center_zoom: 0,
            center_lon: 0,
            center_lat: 0,
        }
    }
}

pub const MAGIC: &[u8; 7] = b"PMTiles";

impl SHeader {
    pub fn encode(&self) -> [u8; 127] {
        let mut b = [0u8; 127];
        b[0..7].copy_from_slice(MAGIC);
        b[7] = 3;
        let u = [
            self.root_offset,
            self.root_length,
            self.meta_offset,
            self.meta_length,
            self.leaf_offset,
            self.leaf_length,
            self.data_offset,
            self.data_length,
            self.n_addressed,
            self.n_entries,
            self.n_contents,
        ];
        for (i, v) in u.iter().enumerate() {
            b[8 + 8 * i..16 + 8 * i].copy_from_slice(&v.to_le_bytes());
        }
        b[96] = self.clustered;
        b[97] = self.internal_compression;
        b[98] = self.tile_compression;
        b[99] = self.tile_type;
        b[100] = self.min_zoom;
        b[101] = self.max_zoom;
        b[102..106].copy_from_slice(&self.min_lon.to_le_bytes());
        b[106..110].copy_from_slice(&self.min_lat.to_le_bytes());
        b[110..114].copy_from_slice(&self.max_lon.to_le_bytes());
        b[114..118].copy_from_slice(&self.max_lat.to_le_bytes());
        b[118] = self.center_zoom;
        b[119..123].copy_from_slice(&self.center_lon.to_le_bytes());
        b[123..127].copy_from_slice(&self.center_lat.to_le_bytes());
        b
    }

    /// Strict decode: magic, version 3, compression codes 0..=4, tile types 0..=5, clustered 0/1.
    pub fn decode(b: &[u8]) -> Result<Self, String> {
        if b.len() < 127 {
            return Err(format!("short header: {} bytes", b.len()));
        }
        if &b[0..7] != MAGIC {
            return Err("bad magic".into());
        }
        if b[7] != 3 {
            return Err(format!("version {}", b[7]));
        }
        let u = |i: usize| u64::from_le_bytes(b[8 + 8 * i..16 + 8 * i].try_into().unwrap());
        let i4 = |o: usize| i32::from_le_bytes(b[o..o + 4].try_into().unwrap());
        if b[96] > 1 {
            return Err(format!("clustered byte {}", b[96]));
        }
        if b[97] > 4 || b[98] > 4 {
            return Err("unknown compression code".into());
        }
        if b[99] > 5 {
            return Err("unknown tile type".into());
        }
        Ok(Self {
            root_offset: u(0),
            root_length: u(1),
            meta_offset: u(2),
            meta_length: u(3),
            leaf_offset: u(4),
            leaf_length: u(5),
            data_offset: u(6),
            data_length: u(7),
            n_addressed: u(8),
            n_entries: u(9),
            n_contents: u(10),
            clustered: b[96],
            internal_compression: b[97],
            tile_compression: b[98],
            tile_type: b[99],
            min_zoom: b[100],
            max_zoom: b[101],
            min_lon: i4(102),
            min_lat: i4(106),
            max_lon: i4(110),
            max_lat: i4(114),
            center_zoom: b[118],
            center_lon: i4(119),
            center_lat: i4(123),
        })
    }

    pub fn coords(&self) -> [i32; 6] {
        [self.min_lon, self.min_lat, self.max_lon, self.max_lat, self.center_lon, self.center_lat]
    }
}

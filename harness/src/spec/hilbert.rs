//! Tile ids per the PMTiles v3 specification (reference algorithm: rotate/flip loop).

fn rotate(n: u64, x: &mut u64, y: &mut u64, rx: u64, ry: u64) {
    if ry == 0 {
        if rx == 1 {
            *x = n.wrapping_sub(1).wrapping_sub(*x);
            *y = n.wrapping_sub(1).wrapping_sub(*y);
        }
        std::mem::swap(x, y);
    }
}

/// first id of zoom z (z <= 32); base(32) = (4^32-1)/3
pub fn base(z: u8) -> u64 {
    debug_assert!(z <= 32);
    // (4^z - 1) / 3
    ((1u128 << (2 * u32::from(z))) - 1).checked_div(3).unwrap() as u64
}

pub fn zxy_to_id(z: u8, x: u64, y: u64) -> u64 {
    debug_assert!(z <= 31 && x < (1u64 << z) && y < (1u64 << z));
    let n: u64 = 1u64 << z;
    let (mut tx, mut ty) = (x, y);
    let mut d: u64 = 0;
    let mut s = n / 2;
    while s > 0 {
        let rx = u64::from(tx & s > 0);
        let ry = u64::from(ty & s > 0);
        d += s * s * ((3 * rx) ^ ry);
        rotate(s, &mut tx, &mut ty, rx, ry);
        // keep only the bits below s (the reference works modulo s from here on)
        tx &= s.wrapping_sub(1) | s;
        ty &= s.wrapping_sub(1) | s;
        s /= 2;
    }
    base(z) + d
}

pub fn id_to_zxy(id: u64) -> Option<(u8, u64, u64)> {
    if id >= base(32) {
        return None;
    }
    let mut z = 0u8;
    while base(z + 1) <= id {
        z += 1;
    }
    let pos = id - base(z);
    let n: u64 = 1u64 << z;
    let (mut tx, mut ty) = (0u64, 0u64);
    let mut t = pos;
    let mut s = 1u64;
    while s < n {
        let rx = 1 & (t / 2);
        let ry = 1 & (t ^ rx);
        rotate(s, &mut tx, &mut ty, rx, ry);
        tx += s * rx;
        ty += s * ry;
        t /= 4;
        s *= 2;
    }
    Some((z, tx, ty))
}

#[cfg(test)]
mod t {
    use super::*;
    #[test]
    fn vectors() {
        assert_eq!(zxy_to_id(0, 0, 0), 0);
        assert_eq!(zxy_to_id(1, 0, 0), 1);
        assert_eq!(zxy_to_id(1, 0, 1), 2);
        assert_eq!(zxy_to_id(1, 1, 1), 3);
        assert_eq!(zxy_to_id(1, 1, 0), 4);
        assert_eq!(zxy_to_id(2, 0, 0), 5);
        assert_eq!(id_to_zxy(19_078_479), Some((12, 3423, 1763)));
        assert_eq!(zxy_to_id(12, 3423, 1763), 19_078_479);
        for id in 0..100_000u64 {
            let (z, x, y) = id_to_zxy(id).unwrap();
            assert_eq!(zxy_to_id(z, x, y), id);
        }
    }
}

//! Reference side. Written from the PMTiles v3 specification text; uses no pmtiles2 code.
pub mod archive;
pub mod codec;
pub mod dir;
pub mod header;
pub mod hilbert;
pub mod inflate;
pub mod latlng;
pub mod varint;

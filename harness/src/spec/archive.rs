//! Spec-level archive reader/validator and a foreign-archive encoder with free layout.
use super::codec;
use super::dir::{self, SEntry};
use super::header::SHeader;
use std::collections::BTreeMap;

// ------------------------------------------------------------------------------------------
// Reader
// ------------------------------------------------------------------------------------------

#[derive(Debug, Clone)]
pub struct ParsedDir {
    /// absolute file offset and length of the serialized directory
    pub abs_offset: u64,
    pub length: u64,
    pub depth: u32,
    pub entries: Vec<SEntry>,
}

#[derive(Debug, Clone)]
pub struct Parsed {
    pub header: SHeader,
    pub metadata: Vec<u8>,
    pub dirs: Vec<ParsedDir>,
    /// tile entries in traversal order (run_length >= 1)
    pub tile_entries: Vec<SEntry>,
    /// id -> (offset relative to tile data, length); later entries overwrite earlier ones
    pub tiles: BTreeMap<u64, (u64, u32)>,
}

fn slice<'a>(b: &'a [u8], off: u64, len: u64, what: &str) -> Result<&'a [u8], String> {
    let end = off.checked_add(len).ok_or_else(|| format!("{what}: offset+length overflows"))?;
    if end > b.len() as u64 {
        return Err(format!("{what}: [{off},{end}) outside file of {} bytes", b.len()));
    }
    Ok(&b[off as usize..end as usize])
}

pub const MAX_DEPTH: u32 = 4;

/// Walks the archive as the specification describes. `budget` bounds the number of expanded tiles
/// plus visited directories; exceeding it yields Err("budget").
pub fn read_archive(b: &[u8], budget: u64) -> Result<Parsed, String> {
    let header = SHeader::decode(b)?;
    if header.internal_compression == 0 {
        return Err("internal compression unknown".into());
    }
    let metadata = if header.meta_length == 0 {
        Vec::new()
    } else {
        let raw = slice(b, header.meta_offset, header.meta_length, "metadata")?;
        codec::decompress(header.internal_compression, raw)?
    };
    let mut p = Parsed {
        header: header.clone(),
        metadata,
        dirs: Vec::new(),
        tile_entries: Vec::new(),
        tiles: BTreeMap::new(),
    };
    let mut steps = 0u64;
    walk(b, &header, header.root_offset, header.root_length, 0, &mut p, &mut steps, budget)?;
    Ok(p)
}

#[allow(clippy::too_many_arguments)]
fn walk(
    b: &[u8],
    h: &SHeader,
    off: u64,
    len: u64,
    depth: u32,
    p: &mut Parsed,
    steps: &mut u64,
    budget: u64,
) -> Result<(), String> {
    if depth >= MAX_DEPTH + 4 {
        return Err("directory tree too deep".into());
    }
    *steps += 1;
    if *steps > budget {
        return Err("budget".into());
    }
    let raw = slice(b, off, len, "directory")?;
    let plain = codec::decompress(h.internal_compression, raw)?;
    let entries = dir::decode(&plain).map_err(|e| format!("directory at {off}: {e:?}"))?;
    p.dirs.push(ParsedDir { abs_offset: off, length: len, depth, entries: entries.clone() });
    for e in entries.iter() {
        if e.run_length == 0 {
            let o = h.leaf_offset.checked_add(e.offset).ok_or("leaf offset overflow")?;
            walk(b, h, o, u64::from(e.length), depth + 1, p, steps, budget)?;
        } else {
            p.tile_entries.push(*e);
            *steps += u64::from(e.run_length);
            if *steps > budget {
                return Err("budget".into());
            }
            for i in 0..u64::from(e.run_length) {
                let id = e.tile_id.checked_add(i).ok_or("tile id overflow")?;
                p.tiles.insert(id, (e.offset, e.length));
            }
        }
    }
    Ok(())
}

impl Parsed {
    pub fn tile_bytes<'a>(&self, b: &'a [u8], id: u64) -> Option<Result<&'a [u8], String>> {
        let (o, l) = *self.tiles.get(&id)?;
        let abs = match self.header.data_offset.checked_add(o) {
            Some(a) => a,
            None => return Some(Err("tile offset overflow".into())),
        };
        Some(slice(b, abs, u64::from(l), "tile"))
    }
}

/// The specification's lookup: binary search in a directory.
pub fn find_tile(entries: &[SEntry], tile_id: u64) -> Option<SEntry> {
    let mut m: i64 = 0;
    let mut n: i64 = entries.len() as i64 - 1;
    while m <= n {
        let k = (n + m) >> 1;
        let e = entries[k as usize];
        if tile_id > e.tile_id {
            m = k + 1;
        } else if tile_id < e.tile_id {
            n = k - 1;
        } else {
            return Some(e);
        }
    }
    if n >= 0 {
        let e = entries[n as usize];
        if e.run_length == 0 {
            return Some(e);
        }
        if tile_id - e.tile_id < u64::from(e.run_length) {
            return Some(e);
        }
    }
    None
}

/// The specification's tile lookup procedure (root, then up to three leaf levels).
pub fn spec_lookup(b: &[u8], h: &SHeader, tile_id: u64) -> Result<Option<Vec<u8>>, String> {
    let mut off = h.root_offset;
    let mut len = h.root_length;
    for _depth in 0..=3 {
        let raw = slice(b, off, len, "directory")?;
        let plain = codec::decompress(h.internal_compression, raw)?;
        let entries = dir::decode(&plain).map_err(|e| format!("{e:?}"))?;
        match find_tile(&entries, tile_id) {
            None => return Ok(None),
            Some(e) if e.run_length > 0 => {
                let abs = h.data_offset.checked_add(e.offset).ok_or("overflow")?;
                return Ok(Some(slice(b, abs, u64::from(e.length), "tile")?.to_vec()));
            }
            Some(e) => {
                off = h.leaf_offset.checked_add(e.offset).ok_or("overflow")?;
                len = u64::from(e.length);
            }
        }
    }
    Err("maximum directory depth exceeded".into())
}

/// Strict validation of a *written* archive (property C02). Returns the parse and a list of complaints.
pub fn validate(b: &[u8], budget: u64) -> (Option<Parsed>, Vec<String>) {
    let mut bad = Vec::new();
    let p = match read_archive(b, budget) {
        Ok(p) => p,
        Err(e) => return (None, vec![format!("independent reader fails: {e}")]),
    };
    let h = &p.header;
    let flen = b.len() as u64;
    // sections inside the file
    let secs = [
        ("header", 0u64, 127u64),
        ("root", h.root_offset, h.root_length),
        ("metadata", h.meta_offset, h.meta_length),
        ("leaves", h.leaf_offset, h.leaf_length),
        ("data", h.data_offset, h.data_length),
    ];
    for (name, o, l) in secs.iter() {
        match o.checked_add(*l) {
            Some(e) if e <= flen => {}
            _ => bad.push(format!("section {name} [{o},+{l}) not inside file of {flen} bytes")),
        }
    }
    // non-empty sections pairwise disjoint
    for i in 0..secs.len() {
        for j in i + 1..secs.len() {
            let (na, oa, la) = secs[i];
            let (nb, ob, lb) = secs[j];
            if la == 0 || lb == 0 {
                continue;
            }
            if oa < ob.saturating_add(lb) && ob < oa.saturating_add(la) {
                bad.push(format!("sections {na} and {nb} overlap"));
            }
        }
    }
    if h.root_offset != 127 && h.root_offset < 127 {
        bad.push("root directory overlaps header".into());
    }
    if h.root_offset.saturating_add(h.root_length) > 16384 {
        bad.push(format!(
            "header+root exceed first 16 KiB: root ends at {}",
            h.root_offset.saturating_add(h.root_length)
        ));
    }
    // metadata must be a JSON object (when present)
    if h.meta_length > 0 {
        match serde_json::from_slice::<serde_json::Value>(&p.metadata) {
            Ok(serde_json::Value::Object(_)) => {}
            Ok(_) => bad.push("metadata is JSON but not an object".into()),
            Err(e) => bad.push(format!("metadata is not JSON: {e}")),
        }
    }
    // every directory: strictly ascending, non-overlapping; leaf pointers inside the leaf section
    for d in p.dirs.iter() {
        if d.depth > 0 {
            let lo = h.leaf_offset;
            let hi = h.leaf_offset.saturating_add(h.leaf_length);
            if d.abs_offset < lo || d.abs_offset.saturating_add(d.length) > hi {
                bad.push(format!("leaf directory at {} outside leaf section", d.abs_offset));
            }
        }
        if d.entries.is_empty() && d.depth > 0 {
            bad.push("empty leaf directory".into());
        }
        let mut next: u128 = 0;
        for (i, e) in d.entries.iter().enumerate() {
            if i > 0 && u128::from(e.tile_id) < next {
                bad.push(format!("entries not ascending / overlapping at id {}", e.tile_id));
            }
            next = u128::from(e.tile_id) + u128::from(e.run_length.max(1));
            if e.run_length > 0 {
                let end = e.offset.saturating_add(u64::from(e.length));
                if end > h.data_length {
                    bad.push(format!("tile entry id {} range [{},{}) outside tile data of {}", e.tile_id, e.offset, end, h.data_length));
                }
            }
        }
    }
    // global order over the flattened traversal
    let mut prev_end: u128 = 0;
    for (i, e) in p.tile_entries.iter().enumerate() {
        if i > 0 && u128::from(e.tile_id) < prev_end {
            bad.push(format!("flattened entries overlap/descend at id {}", e.tile_id));
        }
        prev_end = u128::from(e.tile_id) + u128::from(e.run_length);
    }
    // leaf pointer ids equal first id of their leaf
    // (checked structurally in C06; here: counters)
    let addressed: u64 = p.tile_entries.iter().map(|e| u64::from(e.run_length)).sum();
    if addressed != h.n_addressed {
        bad.push(format!("num_addressed_tiles {} but directories address {}", h.n_addressed, addressed));
    }
    if p.tile_entries.len() as u64 != h.n_entries {
        bad.push(format!("num_tile_entries {} but directories hold {}", h.n_entries, p.tile_entries.len()));
    }
    let mut offs: Vec<u64> = p.tile_entries.iter().map(|e| e.offset).collect();
    offs.sort_unstable();
    offs.dedup();
    if offs.len() as u64 != h.n_contents {
        bad.push(format!("num_tile_content {} but {} distinct offsets", h.n_contents, offs.len()));
    }
    // clustered => first occurrences of offsets ascend with tile id
    if h.clustered == 1 {
        let mut seen = std::collections::BTreeSet::new();
        let mut maxoff: Option<u64> = None;
        for e in p.tile_entries.iter() {
            if seen.contains(&e.offset) {
                continue; // back-reference to content already laid out
            }
            if let Some(m) = maxoff {
                if e.offset <= m {
                    bad.push(format!("clustered flag set but new content of id {} lies at offset {} before earlier content", e.tile_id, e.offset));
                }
            }
            maxoff = Some(e.offset);
            seen.insert(e.offset);
        }
    }
    (Some(p), bad)
}

// ------------------------------------------------------------------------------------------
// Foreign encoder
// ------------------------------------------------------------------------------------------

#[derive(Debug, Clone)]
pub enum Node {
    Tile(SEntry),
    /// leaf pointer: first id as written in the pointer, child directory
    Leaf(u64, Vec<Node>),
}

#[derive(Debug, Clone, Copy, PartialEq, Eq)]
pub enum Sec {
    Meta,
    Leaves,
    Data,
}

#[derive(Debug, Clone)]
pub struct Layout {
    pub order: [Sec; 3],
    /// gap (sentinel bytes) inserted before every section
    pub gap: usize,
    /// root placed at 127 + gap instead of 127
    pub root_gap: bool,
    /// false: depth-first post-order (every leaf directly behind its own children);
    /// true: level order from the deepest level up (all grandchildren, then all children), which puts
    /// sibling leaves back to back while their children lie elsewhere
    pub leaves_child_first: bool,
    /// gap between leaves inside the leaf section
    pub leaf_gap: usize,
}

impl Default for Layout {
    fn default() -> Self {
        Self { order: [Sec::Meta, Sec::Leaves, Sec::Data], gap: 0, root_gap: false, leaves_child_first: false, leaf_gap: 0 }
    }
}

pub const SENTINEL: u8 = 0xEE;

#[derive(Debug, Clone)]
pub struct Foreign {
    pub bytes: Vec<u8>,
    pub header: SHeader,
    /// id -> (absolute offset, length)
    pub expected: BTreeMap<u64, (u64, u32)>,
    /// every directory of the tree: (depth, entries)
    pub dirs: Vec<(u32, Vec<SEntry>)>,
    /// absolute byte ranges [start,end) of: header, root, metadata, leaf section, data section
    pub ranges: BTreeMap<&'static str, (u64, u64)>,
}

fn ser_dir(nodes: &[Node], comp: u8, leafsec: &mut Vec<u8>, lay: &Layout, depth: u32, dirs: &mut Vec<(u32, Vec<SEntry>)>) -> Vec<u8> {
    // children first so that their offsets are known
    let mut entries = Vec::new();
    let idx = dirs.len();
    dirs.push((depth, Vec::new()));
    for n in nodes {
        match n {
            Node::Tile(e) => entries.push(*e),
            Node::Leaf(first, kids) => {
                let bytes = ser_dir(kids, comp, leafsec, lay, depth + 1, dirs);
                for _ in 0..lay.leaf_gap {
                    leafsec.push(SENTINEL);
                }
                let off = leafsec.len() as u64;
                leafsec.extend_from_slice(&bytes);
                entries.push(SEntry::new(*first, off, bytes.len() as u32, 0));
            }
        }
    }
    dirs[idx].1 = entries.clone();
    codec::compress(comp, &dir::encode(&entries))
}

/// level-order variant: all directories of the deepest level first, then the level above, ... then the root
fn ser_dir_levels(root: &[Node], comp: u8, leafsec: &mut Vec<u8>, lay: &Layout, dirs: &mut Vec<(u32, Vec<SEntry>)>) -> Vec<u8> {
    // flatten: every directory gets an index; children lists refer to indices
    struct D<'a> {
        depth: u32,
        nodes: &'a [Node],
        placed: Option<(u64, u32)>,
    }
    fn collect<'a>(nodes: &'a [Node], depth: u32, all: &mut Vec<D<'a>>) -> usize {
        let idx = all.len();
        all.push(D { depth, nodes, placed: None });
        for n in nodes {
            if let Node::Leaf(_, kids) = n {
                collect(kids, depth + 1, all);
            }
        }
        idx
    }
    let mut all: Vec<D> = Vec::new();
    collect(root, 0, &mut all);
    let maxd = all.iter().map(|d| d.depth).max().unwrap_or(0);
    let mut entries_of: Vec<Vec<SEntry>> = vec![Vec::new(); all.len()];
    let mut root_bytes = Vec::new();
    for depth in (0..=maxd).rev() {
        for i in 0..all.len() {
            if all[i].depth != depth {
                continue;
            }
            // children of directory i are the directories collected directly after it, in order
            let mut entries = Vec::new();
            let mut next_child = i + 1;
            for n in all[i].nodes {
                match n {
                    Node::Tile(e) => entries.push(*e),
                    Node::Leaf(first, _) => {
                        // find the next directory at depth+1 starting from next_child
                        while all[next_child].depth != depth + 1 {
                            next_child += 1;
                        }
                        let (off, len) = all[next_child].placed.expect("child placed before parent");
                        entries.push(SEntry::new(*first, off, len, 0));
                        next_child += 1;
                        // skip the child's own descendants
                        while next_child < all.len() && all[next_child].depth > depth + 1 {
                            next_child += 1;
                        }
                    }
                }
            }
            let bytes = codec::compress(comp, &dir::encode(&entries));
            entries_of[i] = entries;
            if depth == 0 {
                root_bytes = bytes;
            } else {
                for _ in 0..lay.leaf_gap {
                    leafsec.push(SENTINEL);
                }
                let off = leafsec.len() as u64;
                leafsec.extend_from_slice(&bytes);
                all[i].placed = Some((off, bytes.len() as u32));
            }
        }
    }
    for (i, d) in all.iter().enumerate() {
        dirs.push((d.depth, entries_of[i].clone()));
    }
    root_bytes
}

fn expand(nodes: &[Node], out: &mut BTreeMap<u64, (u64, u32)>, tile_entries: &mut Vec<SEntry>) {
    for n in nodes {
        match n {
            Node::Tile(e) => {
                tile_entries.push(*e);
                for i in 0..u64::from(e.run_length) {
                    out.insert(e.tile_id + i, (e.offset, e.length));
                }
            }
            Node::Leaf(_, kids) => expand(kids, out, tile_entries),
        }
    }
}

/// Encodes a foreign archive. `meta`: None => metadata length 0; Some(bytes) => compressed as is.
pub fn encode_foreign(
    root: &[Node],
    data: &[u8],
    meta: Option<&[u8]>,
    comp: u8,
    lay: &Layout,
    mut header: SHeader,
) -> Foreign {
    let mut leafsec = Vec::new();
    let mut dirs = Vec::new();
    let root_bytes = if lay.leaves_child_first {
        ser_dir_levels(root, comp, &mut leafsec, lay, &mut dirs)
    } else {
        ser_dir(root, comp, &mut leafsec, lay, 0, &mut dirs)
    };
    let meta_bytes = meta.map(|m| codec::compress(comp, m)).unwrap_or_default();

    let mut out = vec![0u8; 127];
    let mut ranges = BTreeMap::new();
    ranges.insert("header", (0u64, 127u64));
    if lay.root_gap {
        out.extend(std::iter::repeat(SENTINEL).take(lay.gap.max(1)));
    }
    header.root_offset = out.len() as u64;
    header.root_length = root_bytes.len() as u64;
    out.extend_from_slice(&root_bytes);
    ranges.insert("root", (header.root_offset, out.len() as u64));
    for s in lay.order.iter() {
        out.extend(std::iter::repeat(SENTINEL).take(lay.gap));
        let start = out.len() as u64;
        match s {
            Sec::Meta => {
                header.meta_offset = start;
                header.meta_length = meta_bytes.len() as u64;
                out.extend_from_slice(&meta_bytes);
                ranges.insert("metadata", (start, out.len() as u64));
            }
            Sec::Leaves => {
                header.leaf_offset = start;
                header.leaf_length = leafsec.len() as u64;
                out.extend_from_slice(&leafsec);
                ranges.insert("leaves", (start, out.len() as u64));
            }
            Sec::Data => {
                header.data_offset = start;
                header.data_length = data.len() as u64;
                out.extend_from_slice(data);
                ranges.insert("data", (start, out.len() as u64));
            }
        }
    }
    out.extend(std::iter::repeat(SENTINEL).take(lay.gap));

    let mut rel = BTreeMap::new();
    let mut tile_entries = Vec::new();
    expand(root, &mut rel, &mut tile_entries);
    header.internal_compression = comp;
    header.n_addressed = rel.len() as u64;
    header.n_entries = tile_entries.len() as u64;
    let mut offs: Vec<u64> = tile_entries.iter().map(|e| e.offset).collect();
    offs.sort_unstable();
    offs.dedup();
    header.n_contents = offs.len() as u64;
    out[0..127].copy_from_slice(&header.encode());
    let expected = rel.iter().map(|(id, (o, l))| (*id, (header.data_offset + o, *l))).collect();
    Foreign { bytes: out, header, expected, dirs, ranges }
}

//! Controlled in-memory streams (sync and async) whose every call is a choice point owned by the
//! explorer: complete transfer (default), short transfer, `Pending` (async), fail-stop fault.
//! Every call is logged with the byte range it touched.

use futures::io::{AsyncRead, AsyncSeek, AsyncWrite};
use std::io::{self, Read, Seek, SeekFrom, Write};
use std::pin::Pin;
use std::sync::{Arc, Mutex};
use std::task::{Context, Poll};

#[derive(Debug, Clone, Copy, PartialEq, Eq, Hash)]
pub enum Kind {
    Read,
    Write,
    Seek,
    Flush,
    Close,
}

#[derive(Debug, Clone, PartialEq, Eq)]
pub struct OpRec {
    pub kind: Kind,
    pub pos: u64,
    pub req: usize,
    pub done: usize,
    pub new_pos: u64,
    pub failed: bool,
    pub pendings: u32,
    /// bytes written (writes only)
    pub data: Vec<u8>,
}

#[derive(Debug, Clone, Copy, PartialEq, Eq)]
pub enum Answer {
    Full,
    Short(usize),
    /// answer `Pending` this many times (waking each time), then transfer `then` bytes (0 = all)
    Pending(u32, usize),
    Fail,
    /// fail this call only; the stream keeps working afterwards (transient fault)
    FailTransient,
    /// the stream has ended: reads and writes transfer 0 bytes (a source that stops delivering data)
    Eof,
}

/// Decides the answer of the `idx`-th call. `alts` must be filled with the number of alternatives
/// that existed at this point (for the explorer).
pub trait Chooser: Send {
    fn choose(&mut self, idx: usize, kind: Kind, len: usize, is_async: bool) -> Answer;
    /// kind of the I/O errors this chooser injects
    fn fault_kind(&self) -> io::ErrorKind {
        io::ErrorKind::Other
    }
    /// how the injected error is built: 0 = kind + custom payload (`Error::new`), 1 = bare kind without payload
    /// (`ErrorKind::into`), 2 = raw OS error EIO (what a file or socket returns; no payload either)
    fn fault_style(&self) -> u8 {
        0
    }
}

/// fail-stop from call `k` on, with a chosen error kind and representation
pub struct FailFromStyled(pub usize, pub io::ErrorKind, pub u8);
impl Chooser for FailFromStyled {
    fn choose(&mut self, idx: usize, _: Kind, _: usize, _: bool) -> Answer {
        if idx >= self.0 {
            Answer::Fail
        } else {
            Answer::Full
        }
    }
    fn fault_kind(&self) -> io::ErrorKind {
        self.1
    }
    fn fault_style(&self) -> u8 {
        self.2
    }
}

/// from call `k` on the source delivers nothing more (reads return Ok(0))
pub struct EofFrom(pub usize);
impl Chooser for EofFrom {
    fn choose(&mut self, idx: usize, kind: Kind, _: usize, _: bool) -> Answer {
        // reads only: a *sink* that accepts 0 bytes forever makes some upstream encoders spin, which no property covers
        if idx >= self.0 && matches!(kind, Kind::Read) {
            Answer::Eof
        } else {
            Answer::Full
        }
    }
}

/// fail-stop from call `k` on, with a chosen error kind
pub struct FailFromKind(pub usize, pub io::ErrorKind);
impl Chooser for FailFromKind {
    fn choose(&mut self, idx: usize, _: Kind, _: usize, _: bool) -> Answer {
        if idx >= self.0 {
            Answer::Fail
        } else {
            Answer::Full
        }
    }
    fn fault_kind(&self) -> io::ErrorKind {
        self.1
    }
}

/// optional short transfer at one call, and a transient failure at another call
pub struct Transient {
    pub short_at: Option<(usize, usize)>,
    pub fail_at: usize,
}
impl Chooser for Transient {
    fn choose(&mut self, idx: usize, _: Kind, _: usize, _: bool) -> Answer {
        if idx == self.fail_at {
            Answer::FailTransient
        } else if let Some((i, n)) = self.short_at {
            if i == idx {
                Answer::Short(n)
            } else {
                Answer::Full
            }
        } else {
            Answer::Full
        }
    }
}

pub struct DefaultChooser;
impl Chooser for DefaultChooser {
    fn choose(&mut self, _: usize, _: Kind, _: usize, _: bool) -> Answer {
        Answer::Full
    }
}

/// fail-stop: call `k` and every later call fail
pub struct FailFrom(pub usize);
impl Chooser for FailFrom {
    fn choose(&mut self, idx: usize, _: Kind, _: usize, _: bool) -> Answer {
        if idx >= self.0 {
            Answer::Fail
        } else {
            Answer::Full
        }
    }
}

/// every call moves at most `max` bytes; optionally every async call is Pending once first
pub struct Uniform {
    pub max: usize,
    pub pending_each: u32,
}
impl Chooser for Uniform {
    fn choose(&mut self, _: usize, kind: Kind, len: usize, is_async: bool) -> Answer {
        let short = matches!(kind, Kind::Read | Kind::Write) && len > self.max;
        if is_async && self.pending_each > 0 {
            Answer::Pending(self.pending_each, if short { self.max } else { 0 })
        } else if short {
            Answer::Short(self.max)
        } else {
            Answer::Full
        }
    }
}

/// the alternatives (beyond the default) offered at a call
pub fn alternatives(kind: Kind, len: usize, is_async: bool, all_sizes: bool) -> Vec<Answer> {
    let mut v = Vec::new();
    if matches!(kind, Kind::Read | Kind::Write) && len > 1 {
        if all_sizes {
            for s in 1..len {
                v.push(Answer::Short(s));
            }
        } else {
            let mut sizes = vec![1, len / 2, len - 1];
            sizes.retain(|s| *s >= 1 && *s < len);
            sizes.sort_unstable();
            sizes.dedup();
            for s in sizes {
                v.push(Answer::Short(s));
            }
        }
    }
    if is_async {
        v.push(Answer::Pending(1, 0));
        v.push(Answer::Pending(2, 0));
    }
    v
}

/// scripted chooser for the explorer: deviation `alt` (1-based index into `alternatives`) at chosen call indices
pub struct Script {
    pub deviations: Vec<(usize, usize)>,
    pub all_sizes: bool,
    /// offer Pending alternatives on async calls
    pub pending: bool,
    /// number of alternatives at every call of this execution (filled while running)
    pub alts: Arc<Mutex<Vec<u8>>>,
}
impl Chooser for Script {
    fn choose(&mut self, idx: usize, kind: Kind, len: usize, is_async: bool) -> Answer {
        let alts = alternatives(kind, len, is_async && self.pending, self.all_sizes);
        {
            let mut a = self.alts.lock().unwrap();
            if a.len() <= idx {
                a.resize(idx + 1, 0);
            }
            a[idx] = alts.len().min(255) as u8;
        }
        if let Some((_, alt)) = self.deviations.iter().find(|(i, _)| *i == idx) {
            match alts.get(*alt - 1) {
                Some(a) => *a,
                None => panic!("HARNESS: replay diverged: call {idx} ({kind:?}, len {len}) has {} alternatives, script wants #{alt}", alts.len()),
            }
        } else {
            Answer::Full
        }
    }
}

/// default budgets of a controlled stream (livelock guard). The most expensive honest scenario is C18's thorough-tier
/// archive of 5.2 million entries through the async writer, whose uncompressed directories are written varint by
/// varint: about 6 x 10^7 calls and 71 MB. Scenarios with slow sinks set much tighter budgets (`Handle::budget`).
pub const CALL_BUDGET: usize = 1_000_000_000;
pub const DATA_BUDGET: usize = 1 << 30;

pub struct Core {
    pub data: Vec<u8>,
    pub pos: u64,
    pub log: Vec<OpRec>,
    pub calls: usize,
    pub chooser: Box<dyn Chooser>,
    pub closed: bool,
    pub ops_after_close: u64,
    pub failed_once: bool,
    /// kind of the injected I/O errors (a stream may fail with any kind)
    pub fault_kind: io::ErrorKind,
    pub fault_style: u8,
    pub call_budget: usize,
    pub data_budget: usize,
    /// async: state of an operation that is currently answering Pending
    pending: Option<(Kind, u32, usize, u32)>,
    pub record_data: bool,
}

impl Core {
    fn fault(&self) -> io::Error {
        match self.fault_style {
            1 => self.fault_kind.into(),
            2 => io::Error::from_raw_os_error(5),
            _ => io::Error::new(self.fault_kind, "injected stream fault"),
        }
    }
    fn do_read(&mut self, buf: &mut [u8], limit: usize, pendings: u32) -> usize {
        let start = (self.pos as usize).min(self.data.len());
        let n = buf.len().min(self.data.len() - start).min(limit);
        buf[..n].copy_from_slice(&self.data[start..start + n]);
        let pos = self.pos;
        self.pos += n as u64;
        self.log.push(OpRec { kind: Kind::Read, pos, req: buf.len(), done: n, new_pos: self.pos, failed: false, pendings, data: Vec::new() });
        n
    }
    fn do_write(&mut self, buf: &[u8], limit: usize, pendings: u32) -> usize {
        let n = buf.len().min(limit);
        let start = self.pos as usize;
        if self.data.len() < start + n {
            self.data.resize(start + n, 0);
        }
        self.data[start..start + n].copy_from_slice(&buf[..n]);
        let pos = self.pos;
        self.pos += n as u64;
        if self.closed {
            self.ops_after_close += 1;
        }
        self.log.push(OpRec { kind: Kind::Write, pos, req: buf.len(), done: n, new_pos: self.pos, failed: false, pendings, data: if self.record_data { buf[..n].to_vec() } else { Vec::new() } });
        n
    }
    fn do_seek(&mut self, to: SeekFrom, pendings: u32) -> io::Result<u64> {
        let (base, off) = match to {
            SeekFrom::Start(n) => (n as i128, 0i128),
            SeekFrom::End(n) => (self.data.len() as i128, n as i128),
            SeekFrom::Current(n) => (self.pos as i128, n as i128),
        };
        let np = base + off;
        if np < 0 || np > u64::MAX as i128 {
            return Err(io::Error::new(io::ErrorKind::InvalidInput, "invalid seek to a negative or overflowing position"));
        }
        let pos = self.pos;
        self.pos = np as u64;
        self.log.push(OpRec { kind: Kind::Seek, pos, req: 0, done: 0, new_pos: self.pos, failed: false, pendings, data: Vec::new() });
        Ok(self.pos)
    }
    fn log_fail_transient(&mut self, kind: Kind, req: usize) {
        let pos = self.pos;
        self.log.push(OpRec { kind, pos, req, done: 0, new_pos: pos, failed: true, pendings: 0, data: Vec::new() });
    }
    fn log_fail(&mut self, kind: Kind, req: usize) {
        self.failed_once = true;
        let pos = self.pos;
        self.log.push(OpRec { kind, pos, req, done: 0, new_pos: pos, failed: true, pendings: 0, data: Vec::new() });
    }
    fn next_answer(&mut self, kind: Kind, len: usize, is_async: bool) -> Answer {
        let idx = self.calls;
        self.calls += 1;
        // livelock guard: code under test that restarts its work on every poll (or loops on a stream answer) would
        // otherwise grow the stream without bound. Past the budget every call fails, so the operation ends in an
        // error (or a panic of its own) and is judged like any other failure of an operation that must succeed.
        if self.calls > self.call_budget || self.data.len() > self.data_budget {
            self.failed_once = true;
            self.fault_kind = io::ErrorKind::Other;
            self.fault_style = 0;
        }
        // once failed, always failed (fail-stop) regardless of the chooser
        if self.failed_once {
            return Answer::Fail;
        }
        self.chooser.choose(idx, kind, len, is_async)
    }
}

#[derive(Clone)]
pub struct Handle(pub Arc<Mutex<Core>>);

impl Handle {
    pub fn new(data: Vec<u8>, chooser: Box<dyn Chooser>) -> Self {
        let fk = chooser.fault_kind();
        let fs = chooser.fault_style();
        Handle(Arc::new(Mutex::new(Core {
            data,
            pos: 0,
            log: Vec::new(),
            calls: 0,
            chooser,
            closed: false,
            ops_after_close: 0,
            failed_once: false,
            fault_kind: fk,
            fault_style: fs,
            call_budget: CALL_BUDGET,
            data_budget: DATA_BUDGET,
            pending: None,
            record_data: false,
        })))
    }
    /// tighter livelock guard for an operation whose honest cost is known
    pub fn budget(self, calls: usize, data: usize) -> Self {
        {
            let mut c = self.0.lock().unwrap();
            c.call_budget = calls;
            c.data_budget = data;
        }
        self
    }
    pub fn record_data(self) -> Self {
        self.0.lock().unwrap().record_data = true;
        self
    }
    pub fn fault_kind(self, kind: io::ErrorKind) -> Self {
        self.0.lock().unwrap().fault_kind = kind;
        self
    }
    pub fn at(self, pos: u64) -> Self {
        self.0.lock().unwrap().pos = pos;
        self
    }
    pub fn sync(&self) -> SyncStream {
        SyncStream(self.0.clone())
    }
    pub fn asyn(&self) -> AsyncStream {
        AsyncStream(self.0.clone())
    }
    pub fn data(&self) -> Vec<u8> {
        self.0.lock().unwrap().data.clone()
    }
    pub fn pos(&self) -> u64 {
        self.0.lock().unwrap().pos
    }
    pub fn log(&self) -> Vec<OpRec> {
        self.0.lock().unwrap().log.clone()
    }
    pub fn calls(&self) -> usize {
        self.0.lock().unwrap().calls
    }
    pub fn clear_log(&self) {
        self.0.lock().unwrap().log.clear();
    }
    pub fn ops_after_close(&self) -> u64 {
        self.0.lock().unwrap().ops_after_close
    }
}

pub struct SyncStream(pub Arc<Mutex<Core>>);

impl Read for SyncStream {
    fn read_vectored(&mut self, bufs: &mut [io::IoSliceMut<'_>]) -> io::Result<usize> {
        self.read_into_slices(bufs)
    }
    fn read(&mut self, buf: &mut [u8]) -> io::Result<usize> {
        let mut c = self.0.lock().unwrap();
        let avail = c.data.len().saturating_sub(c.pos as usize).min(buf.len());
        match c.next_answer(Kind::Read, avail, false) {
            Answer::Fail => {
                c.log_fail(Kind::Read, buf.len());
                Err(c.fault())
            }
            Answer::FailTransient => {
                c.log_fail_transient(Kind::Read, buf.len());
                Err(c.fault())
            }
            Answer::Short(n) => Ok(c.do_read(buf, n, 0)),
            Answer::Eof => Ok(c.do_read(buf, 0, 0)),
            _ => Ok(c.do_read(buf, usize::MAX, 0)),
        }
    }
}
impl SyncStream {
    fn read_into_slices(&mut self, bufs: &mut [io::IoSliceMut<'_>]) -> io::Result<usize> {
        let total: usize = bufs.iter().map(|b| b.len()).sum();
        let mut tmp = vec![0u8; total];
        let n = self.read(&mut tmp)?;
        let mut off = 0;
        for b in bufs.iter_mut() {
            if off >= n {
                break;
            }
            let k = b.len().min(n - off);
            b[..k].copy_from_slice(&tmp[off..off + k]);
            off += k;
        }
        Ok(n)
    }
}
impl Write for SyncStream {
    fn write(&mut self, buf: &[u8]) -> io::Result<usize> {
        let mut c = self.0.lock().unwrap();
        match c.next_answer(Kind::Write, buf.len(), false) {
            Answer::Fail => {
                c.log_fail(Kind::Write, buf.len());
                Err(c.fault())
            }
            Answer::FailTransient => {
                c.log_fail_transient(Kind::Write, buf.len());
                Err(c.fault())
            }
            Answer::Short(n) => Ok(c.do_write(buf, n, 0)),
            Answer::Eof => Ok(c.do_write(buf, 0, 0)),
            _ => Ok(c.do_write(buf, usize::MAX, 0)),
        }
    }
    /// A vectored write is ONE call offering the concatenation of the slices. The default answer
    /// takes everything (as `Cursor`/`File` do); a short transfer models both a fragmenting
    /// stream and a stream that only implements `write` (which would take just the first slice).
    fn write_vectored(&mut self, bufs: &[io::IoSlice<'_>]) -> io::Result<usize> {
        let all: Vec<u8> = bufs.iter().flat_map(|b| b.iter().copied()).collect();
        self.write(&all)
    }
    fn flush(&mut self) -> io::Result<()> {
        let mut c = self.0.lock().unwrap();
        match c.next_answer(Kind::Flush, 0, false) {
            Answer::Fail => {
                c.log_fail(Kind::Flush, 0);
                Err(c.fault())
            }
            Answer::FailTransient => {
                c.log_fail_transient(Kind::Flush, 0);
                Err(c.fault())
            }
            _ => {
                let pos = c.pos;
                c.log.push(OpRec { kind: Kind::Flush, pos, req: 0, done: 0, new_pos: pos, failed: false, pendings: 0, data: Vec::new() });
                Ok(())
            }
        }
    }
}
impl Seek for SyncStream {
    fn seek(&mut self, to: SeekFrom) -> io::Result<u64> {
        let mut c = self.0.lock().unwrap();
        match c.next_answer(Kind::Seek, 0, false) {
            Answer::Fail => {
                c.log_fail(Kind::Seek, 0);
                Err(c.fault())
            }
            Answer::FailTransient => {
                c.log_fail_transient(Kind::Seek, 0);
                Err(c.fault())
            }
            _ => c.do_seek(to, 0),
        }
    }
}

pub struct AsyncStream(pub Arc<Mutex<Core>>);

/// shared async prologue: returns Ok(Some(limit)) to proceed (limit = max bytes to move),
/// Ok(None) after answering Pending, Err on injected fault
fn async_gate(c: &mut Core, kind: Kind, len: usize, cx: &mut Context<'_>) -> Result<Option<(usize, u32)>, io::Error> {
    if let Some((k, left, then, total)) = c.pending {
        if k != kind {
            // the library abandoned the pending operation and started another one: treat as a fresh call
            c.pending = None;
        } else if left > 0 {
            c.pending = Some((k, left - 1, then, total));
            cx.waker().wake_by_ref();
            return Ok(None);
        } else {
            c.pending = None;
            return Ok(Some((if then == 0 { usize::MAX } else { then }, total)));
        }
    }
    match c.next_answer(kind, len, true) {
        Answer::Fail => {
            c.log_fail(kind, len);
            Err(c.fault())
        }
        Answer::FailTransient => {
            c.log_fail_transient(kind, len);
            Err(c.fault())
        }
        Answer::Full => Ok(Some((usize::MAX, 0))),
        Answer::Eof => Ok(Some((0, 0))),
        Answer::Short(n) => Ok(Some((n, 0))),
        Answer::Pending(times, then) => {
            c.pending = Some((kind, times - 1, then, times));
            cx.waker().wake_by_ref();
            Ok(None)
        }
    }
}

impl AsyncRead for AsyncStream {
    fn poll_read(self: Pin<&mut Self>, cx: &mut Context<'_>, buf: &mut [u8]) -> Poll<io::Result<usize>> {
        let mut c = self.0.lock().unwrap();
        let avail = c.data.len().saturating_sub(c.pos as usize).min(buf.len());
        match async_gate(&mut c, Kind::Read, avail, cx) {
            Err(e) => Poll::Ready(Err(e)),
            Ok(None) => Poll::Pending,
            Ok(Some((limit, p))) => Poll::Ready(Ok(c.do_read(buf, limit, p))),
        }
    }
}
impl AsyncWrite for AsyncStream {
    fn poll_write(self: Pin<&mut Self>, cx: &mut Context<'_>, buf: &[u8]) -> Poll<io::Result<usize>> {
        let mut c = self.0.lock().unwrap();
        match async_gate(&mut c, Kind::Write, buf.len(), cx) {
            Err(e) => Poll::Ready(Err(e)),
            Ok(None) => Poll::Pending,
            Ok(Some((limit, p))) => Poll::Ready(Ok(c.do_write(buf, limit, p))),
        }
    }
    fn poll_write_vectored(self: Pin<&mut Self>, cx: &mut Context<'_>, bufs: &[io::IoSlice<'_>]) -> Poll<io::Result<usize>> {
        let all: Vec<u8> = bufs.iter().flat_map(|b| b.iter().copied()).collect();
        self.poll_write(cx, &all)
    }
    fn poll_flush(self: Pin<&mut Self>, cx: &mut Context<'_>) -> Poll<io::Result<()>> {
        let mut c = self.0.lock().unwrap();
        match async_gate(&mut c, Kind::Flush, 0, cx) {
            Err(e) => Poll::Ready(Err(e)),
            Ok(None) => Poll::Pending,
            Ok(Some((_, p))) => {
                let pos = c.pos;
                c.log.push(OpRec { kind: Kind::Flush, pos, req: 0, done: 0, new_pos: pos, failed: false, pendings: p, data: Vec::new() });
                Poll::Ready(Ok(()))
            }
        }
    }
    fn poll_close(self: Pin<&mut Self>, cx: &mut Context<'_>) -> Poll<io::Result<()>> {
        let mut c = self.0.lock().unwrap();
        match async_gate(&mut c, Kind::Close, 0, cx) {
            Err(e) => Poll::Ready(Err(e)),
            Ok(None) => Poll::Pending,
            Ok(Some((_, p))) => {
                let pos = c.pos;
                c.closed = true;
                c.log.push(OpRec { kind: Kind::Close, pos, req: 0, done: 0, new_pos: pos, failed: false, pendings: p, data: Vec::new() });
                Poll::Ready(Ok(()))
            }
        }
    }
}
impl AsyncSeek for AsyncStream {
    fn poll_seek(self: Pin<&mut Self>, cx: &mut Context<'_>, to: SeekFrom) -> Poll<io::Result<u64>> {
        let mut c = self.0.lock().unwrap();
        match async_gate(&mut c, Kind::Seek, 0, cx) {
            Err(e) => Poll::Ready(Err(e)),
            Ok(None) => Poll::Pending,
            Ok(Some((_, p))) => Poll::Ready(c.do_seek(to, p)),
        }
    }
}

/// apply the first `k` recorded write/seek operations to a fresh (empty) stream image
pub fn replay_prefix(log: &[OpRec], k: usize) -> Vec<u8> {
    let mut img: Vec<u8> = Vec::new();
    for op in log.iter().take(k) {
        if op.kind == Kind::Write && !op.failed {
            let start = op.pos as usize;
            if img.len() < start + op.data.len() {
                img.resize(start + op.data.len(), 0);
            }
            img[start..start + op.data.len()].copy_from_slice(&op.data);
        }
    }
    img
}

//! Logical archive (the reference model: a plain ordered map) and helpers that drive the
//! real library through its public API.

use crate::common::{block_on, catch, cname};
use crate::spec::latlng;
use pmtiles2::{Compression, PMTiles, TileType};
use serde_json::{json, Map, Value};
use std::collections::BTreeMap;
use std::io::Cursor;

pub const TILE_TYPES: [TileType; 6] = [
    TileType::Unknown,
    TileType::Mvt,
    TileType::Png,
    TileType::Jpeg,
    TileType::WebP,
    TileType::AVIF,
];
pub const ALL_COMP_CODES: [Compression; 5] = [
    Compression::Unknown,
    Compression::None,
    Compression::GZip,
    Compression::Brotli,
    Compression::ZStd,
];

#[derive(Debug, Clone, PartialEq)]
pub struct Settings {
    pub tile_type: TileType,
    pub tile_compression: Compression,
    pub internal: Compression,
    pub min_zoom: u8,
    pub max_zoom: u8,
    pub center_zoom: u8,
    /// min_lon, min_lat, max_lon, max_lat, center_lon, center_lat
    pub coords: [f64; 6],
}

impl Settings {
    pub fn plain(internal: Compression) -> Self {
        Self {
            tile_type: TileType::Png,
            tile_compression: Compression::None,
            internal,
            min_zoom: 0,
            max_zoom: 3,
            center_zoom: 1,
            coords: [0.0; 6],
        }
    }
    pub fn to_json(&self) -> Value {
        json!({
            "tile_type": format!("{:?}", self.tile_type),
            "tile_compression": cname(self.tile_compression),
            "internal": cname(self.internal),
            "zooms": [self.min_zoom, self.max_zoom, self.center_zoom],
            "coords_bits": self.coords.iter().map(|c| format!("{:016x}", c.to_bits())).collect::<Vec<_>>(),
            "coords": self.coords.to_vec(),
        })
    }
}

#[derive(Debug, Clone, PartialEq)]
pub struct Logical {
    pub tiles: BTreeMap<u64, Vec<u8>>,
    pub meta: Map<String, Value>,
    pub settings: Settings,
}

impl Logical {
    pub fn new(internal: Compression) -> Self {
        Self { tiles: BTreeMap::new(), meta: Map::new(), settings: Settings::plain(internal) }
    }
    pub fn with_tiles(internal: Compression, tiles: &[(u64, Vec<u8>)]) -> Self {
        let mut l = Self::new(internal);
        for (i, c) in tiles {
            l.tiles.insert(*i, c.clone());
        }
        l
    }
    pub fn brief_json(&self) -> Value {
        json!({
            "tiles": self.tiles.iter().map(|(i, c)| json!([i.to_string(), crate::report::brief(c)])).collect::<Vec<_>>(),
            "meta": Value::Object(self.meta.clone()).to_string().chars().take(200).collect::<String>(),
            "settings": self.settings.to_json(),
        })
    }
}

#[derive(Debug, Clone, Copy, PartialEq, Eq, Hash, PartialOrd, Ord)]
pub enum Api {
    Sync,
    Async,
}
pub const APIS: [Api; 2] = [Api::Sync, Api::Async];
impl Api {
    pub fn name(self) -> &'static str {
        match self {
            Api::Sync => "sync",
            Api::Async => "async",
        }
    }
}

fn apply_settings<R>(pm: &mut PMTiles<R>, l: &Logical) {
    let s = &l.settings;
    pm.tile_type = s.tile_type;
    pm.tile_compression = s.tile_compression;
    pm.internal_compression = s.internal;
    pm.min_zoom = s.min_zoom;
    pm.max_zoom = s.max_zoom;
    pm.center_zoom = s.center_zoom;
    pm.min_longitude = s.coords[0];
    pm.min_latitude = s.coords[1];
    pm.max_longitude = s.coords[2];
    pm.max_latitude = s.coords[3];
    pm.center_longitude = s.coords[4];
    pm.center_latitude = s.coords[5];
    pm.meta_data = l.meta.clone();
}

/// Build the archive in memory through the public API, inserting tiles in the given order
/// (default: ascending) and write it.
pub fn write_lib_order(l: &Logical, api: Api, order: Option<&[u64]>) -> Result<Vec<u8>, String> {
    let ids: Vec<u64> = match order {
        Some(o) => o.to_vec(),
        None => l.tiles.keys().copied().collect(),
    };
    let r = catch(|| -> Result<Vec<u8>, String> {
        match api {
            Api::Sync => {
                let mut pm = PMTiles::new(TileType::Unknown, Compression::Unknown);
                apply_settings(&mut pm, l);
                for id in ids.iter() {
                    pm.add_tile(*id, l.tiles[id].clone()).map_err(|e| format!("add_tile({id}): {e}"))?;
                }
                let mut out = Cursor::new(Vec::new());
                pm.to_writer(&mut out).map_err(|e| format!("to_writer: {e}"))?;
                Ok(out.into_inner())
            }
            Api::Async => {
                let mut pm = PMTiles::new_async(TileType::Unknown, Compression::Unknown);
                apply_settings(&mut pm, l);
                for id in ids.iter() {
                    pm.add_tile(*id, l.tiles[id].clone()).map_err(|e| format!("add_tile({id}): {e}"))?;
                }
                let mut out = futures::io::Cursor::new(Vec::new());
                block_on(pm.to_async_writer(&mut out)).map_err(|e| format!("to_async_writer: {e}"))?;
                Ok(out.into_inner())
            }
        }
    });
    match r {
        Ok(x) => x,
        Err(p) => Err(format!("PANIC {p}")),
    }
}

pub fn write_lib(l: &Logical, api: Api) -> Result<Vec<u8>, String> {
    write_lib_order(l, api, None)
}

/// the async writer over a slow sink: every call (write, flush, seek, close) answers `Pending` once before it
/// completes, and a write takes at most `max` bytes - so every future inside the writer is polled more than once and
/// resumes in the middle of its work
pub fn write_lib_async_slow(l: &Logical, max: usize) -> Result<Vec<u8>, String> {
    use crate::env::{Handle, Uniform};
    let r = catch(|| -> Result<Vec<u8>, String> {
        let mut pm = PMTiles::new_async(TileType::Unknown, Compression::Unknown);
        apply_settings(&mut pm, l);
        for (id, c) in l.tiles.iter() {
            pm.add_tile(*id, c.clone()).map_err(|e| format!("add_tile({id}): {e}"))?;
        }
        // honest cost: a few seeks plus (bytes / max) writes, each polled twice; anything far beyond is a writer that
        // restarts its work when polled again (reported as the failure it then runs into)
        let approx: usize = l.tiles.values().map(Vec::len).sum::<usize>() + 40 * l.tiles.len() + 80_000;
        let h = Handle::new(Vec::new(), Box::new(Uniform { max, pending_each: 1 })).budget(40 * (approx / max.max(1)) + 20_000, 4 * approx + (1 << 20));
        block_on(pm.to_async_writer(&mut h.asyn())).map_err(|e| format!("to_async_writer: {e}"))?;
        Ok(h.data())
    });
    match r {
        Ok(x) => x,
        Err(p) => Err(format!("PANIC {p}")),
    }
}

/// An edit of an opened archive: new settings (None = keep), new metadata (None = keep; `Some` of an equal
/// map is an assignment that changes nothing), tiles removed, tiles added (in this order)
#[derive(Debug, Clone, Default)]
pub struct Edit {
    pub settings: Option<Settings>,
    pub meta: Option<Map<String, Value>>,
    pub remove: Vec<u64>,
    pub add: Vec<(u64, Vec<u8>)>,
}

impl Edit {
    /// the logical archive the edit turns `l` into
    pub fn applied_to(&self, l: &Logical) -> Logical {
        let mut out = l.clone();
        if let Some(s) = &self.settings {
            out.settings = s.clone();
        }
        if let Some(m) = &self.meta {
            out.meta = m.clone();
        }
        for id in self.remove.iter() {
            out.tiles.remove(id);
        }
        for (id, c) in self.add.iter() {
            out.tiles.insert(*id, c.clone());
        }
        out
    }
    pub fn to_json(&self) -> Value {
        json!({
            "settings": self.settings.as_ref().map(|s| s.to_json()),
            "meta": self.meta.as_ref().map(|m| Value::Object(m.clone())),
            "remove": self.remove,
            "add": self.add.iter().map(|(i, c)| json!([i, crate::report::hex(c)])).collect::<Vec<_>>(),
        })
    }
}

fn apply_edit<R>(pm: &mut PMTiles<R>, e: &Edit) -> Result<(), String> {
    if let Some(s) = &e.settings {
        pm.tile_type = s.tile_type;
        pm.tile_compression = s.tile_compression;
        pm.internal_compression = s.internal;
        pm.min_zoom = s.min_zoom;
        pm.max_zoom = s.max_zoom;
        pm.center_zoom = s.center_zoom;
        pm.min_longitude = s.coords[0];
        pm.min_latitude = s.coords[1];
        pm.max_longitude = s.coords[2];
        pm.max_latitude = s.coords[3];
        pm.center_longitude = s.coords[4];
        pm.center_latitude = s.coords[5];
    }
    if let Some(m) = &e.meta {
        pm.meta_data = m.clone();
    }
    for id in e.remove.iter() {
        pm.remove_tile(*id);
    }
    for (id, c) in e.add.iter() {
        pm.add_tile(*id, c.clone()).map_err(|x| format!("add_tile({id}): {x}"))?;
    }
    Ok(())
}

/// open `bytes` with the `api` flavour, apply the edit through the public fields and methods, write with the
/// same flavour
pub fn edit_rewrite(bytes: &[u8], api: Api, e: &Edit) -> Result<Vec<u8>, String> {
    let r = catch(|| -> Result<Vec<u8>, String> {
        match api {
            Api::Sync => {
                let mut pm = PMTiles::from_reader(Cursor::new(bytes)).map_err(|x| format!("open: {x}"))?;
                apply_edit(&mut pm, e)?;
                let mut out = Cursor::new(Vec::new());
                pm.to_writer(&mut out).map_err(|x| format!("to_writer: {x}"))?;
                Ok(out.into_inner())
            }
            Api::Async => {
                let mut pm = block_on(PMTiles::from_async_reader(futures::io::Cursor::new(bytes))).map_err(|x| format!("open: {x}"))?;
                apply_edit(&mut pm, e)?;
                let mut out = futures::io::Cursor::new(Vec::new());
                block_on(pm.to_async_writer(&mut out)).map_err(|x| format!("to_async_writer: {x}"))?;
                Ok(out.into_inner())
            }
        }
    });
    match r {
        Ok(x) => x,
        Err(p) => Err(format!("PANIC {p}")),
    }
}

/// Everything observable about an opened archive, read through the public API.
#[derive(Debug, Clone, PartialEq)]
pub struct View {
    pub ids: Vec<u64>,
    pub num_tiles: usize,
    /// probe id -> Ok(Some(bytes)) | Ok(None) | Err(msg)
    pub tiles: BTreeMap<u64, Result<Option<Vec<u8>>, String>>,
    pub meta: Map<String, Value>,
    pub settings: Settings,
}

fn settings_of<R>(pm: &PMTiles<R>) -> Settings {
    Settings {
        tile_type: pm.tile_type,
        tile_compression: pm.tile_compression,
        internal: pm.internal_compression,
        min_zoom: pm.min_zoom,
        max_zoom: pm.max_zoom,
        center_zoom: pm.center_zoom,
        coords: [
            pm.min_longitude,
            pm.min_latitude,
            pm.max_longitude,
            pm.max_latitude,
            pm.center_longitude,
            pm.center_latitude,
        ],
    }
}

pub fn view_sync<R: std::io::Read + std::io::Seek>(pm: &mut PMTiles<R>, probes: &[u64]) -> View {
    let mut ids: Vec<u64> = pm.tile_ids().into_iter().copied().collect();
    ids.sort_unstable();
    let mut tiles = BTreeMap::new();
    for p in probes {
        tiles.insert(*p, pm.get_tile_by_id(*p).map_err(|e| e.to_string()));
    }
    View { ids, num_tiles: pm.num_tiles(), tiles, meta: pm.meta_data.clone(), settings: settings_of(pm) }
}

pub fn view_async<R>(pm: &mut PMTiles<R>, probes: &[u64]) -> View
where
    R: futures::AsyncRead + futures::AsyncReadExt + Send + Unpin + futures::AsyncSeekExt,
{
    let mut ids: Vec<u64> = pm.tile_ids().into_iter().copied().collect();
    ids.sort_unstable();
    let mut tiles = BTreeMap::new();
    for p in probes {
        tiles.insert(*p, block_on(pm.get_tile_by_id_async(*p)).map_err(|e| e.to_string()));
    }
    View { ids, num_tiles: pm.num_tiles(), tiles, meta: pm.meta_data.clone(), settings: settings_of(pm) }
}

/// Open bytes with the chosen API and take a view. Err = open failed (or panicked).
pub fn open_view(bytes: &[u8], api: Api, probes: &[u64]) -> Result<View, String> {
    let r = catch(|| -> Result<View, String> {
        match api {
            Api::Sync => {
                let mut pm = PMTiles::from_bytes(bytes).map_err(|e| format!("open: {e}"))?;
                Ok(view_sync(&mut pm, probes))
            }
            Api::Async => {
                let mut pm = block_on(PMTiles::from_async_reader(futures::io::Cursor::new(bytes)))
                    .map_err(|e| format!("open: {e}"))?;
                Ok(view_async(&mut pm, probes))
            }
        }
    });
    match r {
        Ok(x) => x,
        Err(p) => Err(format!("PANIC {p}")),
    }
}

/// ids to probe for a logical archive: every present id, its neighbours and a few outsiders
pub fn probes_for(l: &Logical, extra: &[u64]) -> Vec<u64> {
    let mut v: Vec<u64> = Vec::new();
    for id in l.tiles.keys() {
        v.push(*id);
        v.push(id.wrapping_add(1));
        v.push(id.wrapping_sub(1));
    }
    v.extend_from_slice(extra);
    v.push(0);
    v.push(u64::MAX);
    v.sort_unstable();
    v.dedup();
    v
}

/// Does coordinate `got` equal fl(k/1e7) for an integer k exactly nearest to want*1e7?
pub fn coord_ok(want: f64, got: f64) -> bool {
    match latlng::nearest_e7(want) {
        Some((lo, hi)) => {
            for k in [lo, hi] {
                if let Ok(k32) = i32::try_from(k) {
                    if latlng::stored_to_deg(k32).to_bits() == got.to_bits()
                        || (got == 0.0 && k32 == 0)
                    {
                        return true;
                    }
                }
            }
            false
        }
        None => false,
    }
}

/// C01 oracle: compare a view of the re-opened archive with the logical archive. Returns complaints
/// as (clause, text).
pub fn compare_view(l: &Logical, v: &View) -> Vec<(&'static str, String)> {
    let mut bad = Vec::new();
    let want_ids: Vec<u64> = l.tiles.keys().copied().collect();
    if v.ids != want_ids {
        bad.push(("ids", format!("tile id set {:?} != expected {:?}", trunc(&v.ids), trunc(&want_ids))));
    }
    if v.num_tiles != l.tiles.len() {
        bad.push(("count", format!("num_tiles {} != {}", v.num_tiles, l.tiles.len())));
    }
    for (id, got) in v.tiles.iter() {
        let want = l.tiles.get(id);
        match (want, got) {
            (Some(w), Ok(Some(g))) if w == g => {}
            (None, Ok(None)) => {}
            (w, g) => bad.push((
                "tile",
                format!(
                    "tile {id}: expected {} got {}",
                    w.map(|x| crate::report::brief(x)).unwrap_or_else(|| "none".into()),
                    match g {
                        Ok(Some(x)) => crate::report::brief(x),
                        Ok(None) => "none".into(),
                        Err(e) => format!("Err({e})"),
                    }
                ),
            )),
        }
    }
    if v.meta != l.meta {
        bad.push(("meta", format!(
            "metadata differs: got {} want {}",
            Value::Object(v.meta.clone()).to_string().chars().take(160).collect::<String>(),
            Value::Object(l.meta.clone()).to_string().chars().take(160).collect::<String>()
        )));
    }
    let s = &l.settings;
    let g = &v.settings;
    if s.tile_type != g.tile_type || s.tile_compression != g.tile_compression || s.internal != g.internal {
        bad.push(("enums", format!("type/compression settings differ: got {:?}/{:?}/{:?}", g.tile_type, g.tile_compression, g.internal)));
    }
    if (s.min_zoom, s.max_zoom, s.center_zoom) != (g.min_zoom, g.max_zoom, g.center_zoom) {
        bad.push(("zooms", format!("zooms differ: got {:?}", (g.min_zoom, g.max_zoom, g.center_zoom))));
    }
    for i in 0..6 {
        if !coord_ok(s.coords[i], g.coords[i]) {
            bad.push(("coords", format!(
                "coordinate #{i}: set {:e} (bits {:016x}) read back {:e}; exact nearest stored value(s) {:?}",
                s.coords[i], s.coords[i].to_bits(), g.coords[i], latlng::nearest_e7(s.coords[i])
            )));
        }
    }
    bad
}

fn trunc(v: &[u64]) -> Vec<u64> {
    v.iter().take(12).copied().collect()
}

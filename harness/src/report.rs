//! Evidence, violation bookkeeping, known-findings matching and the verdict protocol.
//!
//! exit 0 = held on everything explored (KNOWN-FINDING lines for listed findings)
//! exit 1 = at least one violation that /verif/known_findings.json does not list
//! exit 2 = machinery failure (never a verdict)

use serde_json::{json, Map, Value};
use std::collections::BTreeMap;
use std::sync::atomic::{AtomicU64, Ordering};
use std::sync::Mutex;
use std::time::Instant;

pub const VERIF_ROOT: &str = "/verif";

#[derive(Clone, Debug)]
pub struct Violation {
    /// stable key identifying *what* fails (call site / clause / input class). Known findings match on it.
    pub key: String,
    /// human readable description
    pub detail: String,
    /// machine readable case; `./check <id> --replay <file>` re-runs it
    pub case: Value,
}

pub struct Report {
    pub prop: &'static str,
    pub tier: String,
    pub seed: i64,
    pub level: &'static str,
    start: Instant,
    evaluations: AtomicU64,
    nontrivial: AtomicU64,
    counters: Mutex<BTreeMap<String, u64>>,
    violations: Mutex<Vec<Violation>>,
    per_key: Mutex<BTreeMap<String, u64>>,
    samples: Mutex<Vec<Value>>,
    extra: Mutex<Map<String, Value>>,
    assumptions: Mutex<Vec<String>>,
    rule: Mutex<String>,
    exhaustive: Mutex<bool>,
    sample_every: u64,
}

impl Report {
    pub fn new(prop: &'static str, tier: &str, level: &'static str) -> Self {
        let seed = std::env::var("VERIF_SEED")
            .ok()
            .and_then(|s| s.trim().parse::<i64>().ok())
            .unwrap_or(0);
        Self {
            prop,
            tier: tier.to_string(),
            seed,
            level,
            start: Instant::now(),
            evaluations: AtomicU64::new(0),
            nontrivial: AtomicU64::new(0),
            counters: Mutex::new(BTreeMap::new()),
            violations: Mutex::new(Vec::new()),
            per_key: Mutex::new(BTreeMap::new()),
            samples: Mutex::new(Vec::new()),
            extra: Mutex::new(Map::new()),
            assumptions: Mutex::new(Vec::new()),
            rule: Mutex::new(String::new()),
            exhaustive: Mutex::new(true),
            // the seed only rotates which explored cases are written out as samples
            sample_every: 997 + (seed.unsigned_abs() % 101),
        }
    }

    pub fn thorough(&self) -> bool {
        self.tier == "thorough"
    }

    pub fn eval(&self, n: u64) {
        self.evaluations.fetch_add(n, Ordering::Relaxed);
    }
    pub fn nontrivial(&self, n: u64) {
        self.nontrivial.fetch_add(n, Ordering::Relaxed);
    }
    pub fn evaluations(&self) -> u64 {
        self.evaluations.load(Ordering::Relaxed)
    }
    pub fn count(&self, name: &str, n: u64) {
        *self.counters.lock().unwrap().entry(name.to_string()).or_insert(0) += n;
    }
    pub fn merge_counts(&self, m: &BTreeMap<String, u64>) {
        let mut c = self.counters.lock().unwrap();
        for (k, v) in m {
            *c.entry(k.clone()).or_insert(0) += v;
        }
    }
    pub fn get_count(&self, name: &str) -> u64 {
        *self.counters.lock().unwrap().get(name).unwrap_or(&0)
    }
    pub fn set(&self, key: &str, v: Value) {
        self.extra.lock().unwrap().insert(key.to_string(), v);
    }
    pub fn rule(&self, r: &str) {
        let mut g = self.rule.lock().unwrap();
        if !g.is_empty() {
            g.push_str(" | ");
        }
        g.push_str(r);
    }
    pub fn assume(&self, a: &str) {
        self.assumptions.lock().unwrap().push(a.to_string());
    }
    pub fn not_exhaustive(&self, why: &str) {
        *self.exhaustive.lock().unwrap() = false;
        self.set("cap_hit", json!(why));
    }
    /// offer a case as a sample; kept if it is one of the first few of its kind or hits the stride
    pub fn sample(&self, idx: u64, f: impl FnOnce() -> Value) {
        if idx < 2 || idx % self.sample_every == 0 {
            let mut s = self.samples.lock().unwrap();
            if s.len() < 12 {
                s.push(f());
            }
        }
    }
    pub fn force_sample(&self, v: Value) {
        let mut s = self.samples.lock().unwrap();
        if s.len() < 24 {
            s.push(v);
        }
    }
    pub fn violation(&self, key: impl Into<String>, detail: impl Into<String>, case: Value) {
        let key: String = key.into();
        // keep memory bounded (at most 25 stored cases per key); the counts stay exact
        self.count("violations_raw", 1);
        let n = {
            let mut pk = self.per_key.lock().unwrap();
            let n = pk.entry(key.clone()).or_insert(0);
            *n += 1;
            *n
        };
        if n <= 25 {
            self.violations.lock().unwrap().push(Violation {
                key,
                detail: detail.into(),
                case,
            });
        }
    }
    pub fn violations_so_far(&self) -> usize {
        self.violations.lock().unwrap().len()
    }

    /// Writes evidence, prints verdict lines, returns the process exit code.
    pub fn finish(&self) -> i32 {
        let wall = self.start.elapsed().as_secs_f64();
        let known = load_known_findings(self.prop);
        let mut vio = self.violations.lock().unwrap().clone();
        vio.sort_by(|a, b| a.key.cmp(&b.key));

        let mut known_hits: BTreeMap<String, (String, u64)> = BTreeMap::new();
        let mut unknown: Vec<Violation> = Vec::new();
        let per_key = self.per_key.lock().unwrap().clone();
        for v in vio.iter() {
            if let Some(k) = known.iter().find(|k| k.matches(&v.key)) {
                known_hits
                    .entry(k.key.clone())
                    .or_insert((k.what.clone(), 0));
            } else {
                unknown.push(v.clone());
            }
        }
        for (key, n) in per_key.iter() {
            if let Some(k) = known.iter().find(|k| k.matches(key)) {
                if let Some(e) = known_hits.get_mut(&k.key) {
                    e.1 += n;
                }
            }
        }

        // replay artefacts: one per distinct key (first = simplest, alphabets are ordered simplest-first)
        let mut replay_paths: Vec<(String, String, String)> = Vec::new();
        let dir = format!("{}/{}", std::env::var("VERIF_REPLAY_DIR").unwrap_or_else(|_| format!("{}/replays", VERIF_ROOT)), self.prop);
        let _ = std::fs::create_dir_all(&dir);
        let mut seen_keys: BTreeMap<String, u64> = BTreeMap::new();
        for v in unknown.iter() {
            let n = seen_keys.entry(v.key.clone()).or_insert(0);
            *n += 1;
            if *n > 1 || replay_paths.len() >= 40 {
                continue;
            }
            let plain = std::env::var("VERIF_BUILD").map(|b| b == "plain").unwrap_or(false);
            let fname = format!(
                "{}/{}{}-{}.json",
                dir,
                if plain { "plain-" } else { "" },
                self.tier,
                sanitize(&v.key).chars().take(80).collect::<String>()
            );
            // verif_build tells ./check --replay which of the two harness binaries reproduces the case
            let body = json!({"property": self.prop, "key": v.key, "detail": v.detail, "case": v.case, "verif_build": if plain { "plain" } else { "checked" }});
            let _ = std::fs::write(&fname, serde_json::to_vec_pretty(&body).unwrap());
            replay_paths.push((v.key.clone(), v.detail.clone(), fname));
        }

        let counters = self.counters.lock().unwrap().clone();
        let evaluations = self.evaluations.load(Ordering::Relaxed);
        let nontrivial = self.nontrivial.load(Ordering::Relaxed);
        let mut coverage = Map::new();
        coverage.insert("evaluations".into(), json!(evaluations));
        coverage.insert("distinct_nontrivial".into(), json!(nontrivial));
        coverage.insert("rule".into(), json!(self.rule.lock().unwrap().clone()));
        let mut samples = self.samples.lock().unwrap().clone();
        if samples.is_empty() {
            samples.push(json!("no sample recorded"));
        }
        coverage.insert("samples".into(), Value::Array(samples));
        coverage.insert("exhaustive".into(), json!(*self.exhaustive.lock().unwrap()));
        coverage.insert("counters".into(), json!(counters));
        for (k, v) in self.extra.lock().unwrap().iter() {
            coverage.insert(k.clone(), v.clone());
        }
        // the summary of the preceding run of the same check in the second harness binary (library compiled without
        // debug assertions and overflow checks, as release builds of users are), handed over by ./check
        if let Ok(p) = std::env::var("VERIF_PLAIN_SUMMARY") {
            if let Ok(Ok(pv)) = std::fs::read(&p).map(|b| serde_json::from_slice::<Value>(&b)) {
                coverage.insert(
                    "second_build_without_debug_assertions".into(),
                    json!({
                        "what": "the same check (quick-tier bounds) run first in a second harness binary in which the library under test is compiled with debug-assertions and overflow-checks off (profile 'plain'); a violation there fails the check as well",
                        "evaluations": pv["coverage"]["evaluations"], "distinct_nontrivial": pv["coverage"]["distinct_nontrivial"],
                        "violations": pv["violations"], "violation_keys": pv["coverage"]["violation_keys"], "wall_s": pv["wall_s"],
                    }),
                );
            }
        }
        coverage.insert(
            "known_findings_hit".into(),
            json!(known_hits
                .iter()
                .map(|(k, (w, n))| json!({"key": k, "what": w, "cases": n}))
                .collect::<Vec<_>>()),
        );
        coverage.insert(
            "violation_keys".into(),
            json!(seen_keys.keys().map(|k| json!({"key": k, "cases": per_key.get(k).copied().unwrap_or(0)})).collect::<Vec<_>>()),
        );
        let ev = json!({
            "property_id": self.prop,
            "tier": self.tier,
            "seed": self.seed,
            "level": self.level,
            "coverage": Value::Object(coverage),
            "assumptions": self.assumptions.lock().unwrap().clone(),
            "wall_s": (wall * 1000.0).round() / 1000.0,
            "violations": seen_keys.keys().map(|k| per_key.get(k).copied().unwrap_or(0)).sum::<u64>(),
        });
        // VERIF_EVIDENCE_DIR redirects evidence while a seeded change is applied to /repo (mutant runs)
        let evdir = std::env::var("VERIF_EVIDENCE_DIR").unwrap_or_else(|_| format!("{}/evidence", VERIF_ROOT));
        let _ = std::fs::create_dir_all(&evdir);
        let evpath = format!("{}/{}.json", evdir, self.prop);
        if let Err(e) = std::fs::write(&evpath, serde_json::to_vec_pretty(&ev).unwrap()) {
            println!("MACHINERY: cannot write evidence {evpath}: {e}");
            return 2;
        }

        println!(
            "[{}] tier={} evaluations={} nontrivial={} wall={:.1}s exhaustive={}",
            self.prop,
            self.tier,
            evaluations,
            nontrivial,
            wall,
            *self.exhaustive.lock().unwrap()
        );
        for (k, v) in counters.iter() {
            println!("    {k} = {v}");
        }
        for (k, (what, n)) in known_hits.iter() {
            println!(
                "KNOWN-FINDING: property={} {} [{}; {} case(s) this run]",
                self.prop, what, k, n
            );
        }
        if unknown.is_empty() {
            println!("[{}] OK", self.prop);
            0
        } else {
            for (key, detail, path) in replay_paths.iter() {
                println!("  violation key={key}: {detail}");
                println!("VIOLATION property={} replay={}", self.prop, path);
            }
            println!(
                "[{}] {} violating case(s) under {} distinct key(s)",
                self.prop,
                seen_keys.keys().map(|k| per_key.get(k).copied().unwrap_or(0)).sum::<u64>(),
                seen_keys.len()
            );
            1
        }
    }
}

fn sanitize(s: &str) -> String {
    s.chars()
        .map(|c| if c.is_ascii_alphanumeric() || c == '-' || c == '_' || c == '.' { c } else { '_' })
        .collect()
}

pub struct Known {
    pub key: String,
    pub what: String,
    pub prefix: bool,
}
impl Known {
    fn matches(&self, k: &str) -> bool {
        if self.prefix {
            k.starts_with(&self.key)
        } else {
            k == self.key
        }
    }
}

/// Only entries with status "finding" suppress; "fixed" entries suppress nothing.
pub fn load_known_findings(prop: &str) -> Vec<Known> {
    let path = format!("{}/known_findings.json", VERIF_ROOT);
    let Ok(bytes) = std::fs::read(&path) else {
        return Vec::new();
    };
    let Ok(v) = serde_json::from_slice::<Value>(&bytes) else {
        println!("MACHINERY: {path} is not valid JSON");
        std::process::exit(2);
    };
    let mut out = Vec::new();
    if let Some(arr) = v.get("entries").and_then(|a| a.as_array()) {
        for e in arr {
            if e.get("status").and_then(|s| s.as_str()) != Some("finding") {
                continue;
            }
            if e.get("property").and_then(|s| s.as_str()) != Some(prop) {
                continue;
            }
            let key = e.get("key").and_then(|s| s.as_str()).unwrap_or("").to_string();
            if key.is_empty() {
                continue;
            }
            out.push(Known {
                key,
                what: e.get("what").and_then(|s| s.as_str()).unwrap_or("").to_string(),
                prefix: e.get("match").and_then(|s| s.as_str()) == Some("prefix"),
            });
        }
    }
    out
}

pub fn hex(b: &[u8]) -> String {
    let mut s = String::with_capacity(b.len() * 2);
    for x in b {
        s.push_str(&format!("{x:02x}"));
    }
    s
}
pub fn unhex(s: &str) -> Vec<u8> {
    (0..s.len() / 2)
        .map(|i| u8::from_str_radix(&s[2 * i..2 * i + 2], 16).unwrap_or(0))
        .collect()
}
/// short description of a byte string for messages
pub fn brief(b: &[u8]) -> String {
    if b.len() <= 24 {
        hex(b)
    } else {
        format!("{}..({} bytes)", hex(&b[..16]), b.len())
    }
}
